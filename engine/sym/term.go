// Package sym implements hash-consed SMT terms (booleans and fixed-width
// bit-vectors) with constant folding, an SMT-LIB2 printer and an evaluator.
package sym

import (
	"fmt"
	"math/bits"
	"strings"
)

type Op uint8

const (
	OpConst Op = iota
	OpVar
	OpNot
	OpAnd
	OpOr
	OpEq
	OpIte
	OpAdd
	OpSub
	OpMul
	OpUDiv
	OpURem
	OpSDiv
	OpSRem
	OpBAnd
	OpBOr
	OpBXor
	OpBNot
	OpNeg
	OpShl
	OpLShr
	OpAShr
	OpULt
	OpULe
	OpSLt
	OpSLe
	OpZExt
	OpSExt
	OpExtract // args[0], hi=Aux>>8, lo=Aux&0xff
	OpConcat
)

var opNames = map[Op]string{
	OpNot: "not", OpAnd: "and", OpOr: "or", OpEq: "=", OpIte: "ite",
	OpAdd: "bvadd", OpSub: "bvsub", OpMul: "bvmul", OpUDiv: "bvudiv", OpURem: "bvurem",
	OpSDiv: "bvsdiv", OpSRem: "bvsrem", OpBAnd: "bvand", OpBOr: "bvor", OpBXor: "bvxor",
	OpBNot: "bvnot", OpNeg: "bvneg", OpShl: "bvshl", OpLShr: "bvlshr", OpAShr: "bvashr",
	OpULt: "bvult", OpULe: "bvule", OpSLt: "bvslt", OpSLe: "bvsle", OpConcat: "concat",
}

// Term is an immutable, hash-consed term. W == 0 means Bool, otherwise a
// bit-vector of width W (1..64).
type Term struct {
	ID   int
	Op   Op
	W    int
	Args []*Term
	Val  uint64 // OpConst: value (bool: 0/1)
	Aux  int    // OpExtract: hi<<8|lo ; OpZExt/OpSExt: unused
	Name string // OpVar
	ctx  *Ctx
}

func (t *Term) IsConst() bool { return t.Op == OpConst }
func (t *Term) IsBool() bool  { return t.W == 0 }
func (t *Term) IsTrue() bool  { return t.Op == OpConst && t.W == 0 && t.Val == 1 }
func (t *Term) IsFalse() bool { return t.Op == OpConst && t.W == 0 && t.Val == 0 }

// Ctx owns the terms of one symbolic run.
type tkey struct {
	op         Op
	w          int
	val        uint64
	aux        int
	name       string
	n          int
	a0, a1, a2 int
}

type Ctx struct {
	table map[string]*Term
	fast  map[tkey]*Term
	terms []*Term
	Vars  []*Term
	T, F  *Term
}

func NewCtx() *Ctx {
	c := &Ctx{table: map[string]*Term{}, fast: map[tkey]*Term{}}
	c.T = c.mk(&Term{Op: OpConst, W: 0, Val: 1})
	c.F = c.mk(&Term{Op: OpConst, W: 0, Val: 0})
	return c
}

func (c *Ctx) NumTerms() int { return len(c.terms) }

func (c *Ctx) TermByID(id int) *Term { return c.terms[id] }

func (c *Ctx) mk(t *Term) *Term {
	if len(t.Args) <= 3 {
		k := tkey{op: t.Op, w: t.W, val: t.Val, aux: t.Aux, name: t.Name, n: len(t.Args), a0: -1, a1: -1, a2: -1}
		switch len(t.Args) {
		case 3:
			k.a2 = t.Args[2].ID
			fallthrough
		case 2:
			k.a1 = t.Args[1].ID
			fallthrough
		case 1:
			k.a0 = t.Args[0].ID
		}
		if x, ok := c.fast[k]; ok {
			return x
		}
		t.ID = len(c.terms)
		t.ctx = c
		c.terms = append(c.terms, t)
		c.fast[k] = t
		return t
	}
	var sb strings.Builder
	fmt.Fprintf(&sb, "%d/%d/%d/%d/%s", t.Op, t.W, t.Val, t.Aux, t.Name)
	for _, a := range t.Args {
		fmt.Fprintf(&sb, "/%d", a.ID)
	}
	k := sb.String()
	if x, ok := c.table[k]; ok {
		return x
	}
	t.ID = len(c.terms)
	t.ctx = c
	c.terms = append(c.terms, t)
	c.table[k] = t
	return t
}

func mask(w int) uint64 {
	if w >= 64 {
		return ^uint64(0)
	}
	return (uint64(1) << uint(w)) - 1
}

func (c *Ctx) Bool(b bool) *Term {
	if b {
		return c.T
	}
	return c.F
}

func (c *Ctx) Const(v uint64, w int) *Term {
	if w == 0 {
		return c.Bool(v != 0)
	}
	v &= mask(w)
	if x, ok := c.fast[tkey{op: OpConst, w: w, val: v, a0: -1, a1: -1, a2: -1}]; ok {
		return x
	}
	return c.mk(&Term{Op: OpConst, W: w, Val: v})
}

func (c *Ctx) Var(name string, w int) *Term {
	t := c.mk(&Term{Op: OpVar, W: w, Name: name})
	if t.ID == len(c.terms)-1 {
		c.Vars = append(c.Vars, t)
	}
	return t
}

func sext64(v uint64, w int) int64 {
	if w >= 64 {
		return int64(v)
	}
	s := uint(64 - w)
	return int64(v<<s) >> s
}

func (c *Ctx) Not(a *Term) *Term {
	if a.IsConst() {
		return c.Bool(a.Val == 0)
	}
	if a.Op == OpNot {
		return a.Args[0]
	}
	return c.mk(&Term{Op: OpNot, Args: []*Term{a}})
}

func (c *Ctx) And(xs ...*Term) *Term {
	var out []*Term
	seen := map[int]bool{}
	for _, x := range xs {
		if x.IsFalse() {
			return c.F
		}
		if x.IsTrue() {
			continue
		}
		if x.Op == OpAnd {
			for _, y := range x.Args {
				if !seen[y.ID] {
					seen[y.ID] = true
					out = append(out, y)
				}
			}
			continue
		}
		if !seen[x.ID] {
			seen[x.ID] = true
			out = append(out, x)
		}
	}
	for _, x := range out {
		if x.Op == OpNot && seen[x.Args[0].ID] {
			return c.F
		}
	}
	switch len(out) {
	case 0:
		return c.T
	case 1:
		return out[0]
	}
	return c.mk(&Term{Op: OpAnd, Args: out})
}

func (c *Ctx) Or(xs ...*Term) *Term {
	var out []*Term
	seen := map[int]bool{}
	for _, x := range xs {
		if x.IsTrue() {
			return c.T
		}
		if x.IsFalse() {
			continue
		}
		if x.Op == OpOr {
			for _, y := range x.Args {
				if !seen[y.ID] {
					seen[y.ID] = true
					out = append(out, y)
				}
			}
			continue
		}
		if !seen[x.ID] {
			seen[x.ID] = true
			out = append(out, x)
		}
	}
	for _, x := range out {
		if x.Op == OpNot && seen[x.Args[0].ID] {
			return c.T
		}
	}
	switch len(out) {
	case 0:
		return c.F
	case 1:
		return out[0]
	}
	return c.mk(&Term{Op: OpOr, Args: out})
}

func (c *Ctx) Implies(a, b *Term) *Term { return c.Or(c.Not(a), b) }

func (c *Ctx) Eq(a, b *Term) *Term {
	if a.W != b.W {
		panic(fmt.Sprintf("sym.Eq width mismatch %d vs %d", a.W, b.W))
	}
	if a == b {
		return c.T
	}
	if a.IsConst() && b.IsConst() {
		return c.Bool(a.Val == b.Val)
	}
	if a.W == 0 {
		if a.IsConst() {
			a, b = b, a
		}
		if b.IsTrue() {
			return a
		}
		if b.IsFalse() {
			return c.Not(a)
		}
	}
	if a.ID > b.ID {
		a, b = b, a
	}
	// ite(c, k1, k2) == k  with constants
	x, k := a, b
	if a.IsConst() {
		x, k = b, a
	}
	if k.IsConst() && x.Op == OpIte && x.Args[1].IsConst() && x.Args[2].IsConst() {
		t1 := x.Args[1].Val == k.Val
		t2 := x.Args[2].Val == k.Val
		switch {
		case t1 && t2:
			return c.T
		case t1:
			return x.Args[0]
		case t2:
			return c.Not(x.Args[0])
		default:
			return c.F
		}
	}
	return c.mk(&Term{Op: OpEq, Args: []*Term{a, b}})
}

func (c *Ctx) Ite(cond, a, b *Term) *Term {
	if a.W != b.W {
		panic("sym.Ite width mismatch")
	}
	if cond.IsTrue() {
		return a
	}
	if cond.IsFalse() {
		return b
	}
	if a == b {
		return a
	}
	if a.W == 0 {
		if a.IsTrue() && b.IsFalse() {
			return cond
		}
		if a.IsFalse() && b.IsTrue() {
			return c.Not(cond)
		}
	}
	if cond.Op == OpNot {
		return c.Ite(cond.Args[0], b, a)
	}
	// canonical min/max: ite(p<q, p, q), ite(p<=q, p, q), ite(q<p, q, p) ... all
	// denote min(p, q); likewise max. Use one form, ordered by term id.
	if cond.Op == OpULt || cond.Op == OpULe || cond.Op == OpSLt || cond.Op == OpSLe {
		p, q := cond.Args[0], cond.Args[1]
		signed := cond.Op == OpSLt || cond.Op == OpSLe
		lt := OpULt
		if signed {
			lt = OpSLt
		}
		var isMin, isMax bool
		if a == p && b == q {
			isMin = true
		} else if a == q && b == p {
			isMax = true
		}
		if isMin || isMax {
			lo, hi := p, q
			if lo.ID > hi.ID {
				lo, hi = hi, lo
			}
			cc := c.cmp(lt, lo, hi)
			if cc.IsConst() {
				if (cc.Val == 1) == isMin {
					return lo
				}
				return hi
			}
			if isMin {
				return c.mk(&Term{Op: OpIte, W: a.W, Args: []*Term{cc, lo, hi}})
			}
			return c.mk(&Term{Op: OpIte, W: a.W, Args: []*Term{cc, hi, lo}})
		}
	}
	return c.mk(&Term{Op: OpIte, W: a.W, Args: []*Term{cond, a, b}})
}

func (c *Ctx) bin(op Op, a, b *Term) *Term {
	if a.W != b.W || a.W == 0 {
		panic(fmt.Sprintf("sym.bin %v width mismatch %d vs %d", op, a.W, b.W))
	}
	w := a.W
	if a.IsConst() && b.IsConst() {
		x, y := a.Val, b.Val
		var r uint64
		switch op {
		case OpAdd:
			r = x + y
		case OpSub:
			r = x - y
		case OpMul:
			r = x * y
		case OpUDiv:
			if y == 0 {
				r = mask(w)
			} else {
				r = x / y
			}
		case OpURem:
			if y == 0 {
				r = x
			} else {
				r = x % y
			}
		case OpSDiv:
			sx, sy := sext64(x, w), sext64(y, w)
			if sy == 0 {
				if sx < 0 {
					r = 1
				} else {
					r = mask(w)
				}
			} else if sy == -1 {
				r = uint64(-sx)
			} else {
				r = uint64(sx / sy)
			}
		case OpSRem:
			sx, sy := sext64(x, w), sext64(y, w)
			if sy == 0 {
				r = x
			} else if sy == -1 {
				r = 0
			} else {
				r = uint64(sx % sy)
			}
		case OpBAnd:
			r = x & y
		case OpBOr:
			r = x | y
		case OpBXor:
			r = x ^ y
		case OpShl:
			if y >= uint64(w) {
				r = 0
			} else {
				r = x << y
			}
		case OpLShr:
			if y >= uint64(w) {
				r = 0
			} else {
				r = x >> y
			}
		case OpAShr:
			sx := sext64(x, w)
			if y >= uint64(w) {
				y = uint64(w - 1)
			}
			r = uint64(sx >> y)
		}
		return c.Const(r, w)
	}
	// light algebraic simplifications
	switch op {
	case OpAdd:
		if a.IsConst() && a.Val == 0 {
			return b
		}
		if b.IsConst() && b.Val == 0 {
			return a
		}
		if a.IsConst() {
			a, b = b, a
		}
		// (x + k1) + k2
		if b.IsConst() && a.Op == OpAdd && a.Args[1].IsConst() {
			return c.bin(OpAdd, a.Args[0], c.Const(a.Args[1].Val+b.Val, w))
		}
		if b.IsConst() && a.Op == OpSub && a.Args[1].IsConst() {
			return c.bin(OpAdd, a.Args[0], c.Const(b.Val-a.Args[1].Val, w))
		}
	case OpSub:
		if b.IsConst() && b.Val == 0 {
			return a
		}
		if a == b {
			return c.Const(0, w)
		}
		if b.IsConst() {
			return c.bin(OpAdd, a, c.Const(-b.Val, w))
		}
		// (x + k) - x
		if a.Op == OpAdd && a.Args[0] == b {
			return a.Args[1]
		}
	case OpMul:
		if a.IsConst() {
			a, b = b, a
		}
		if b.IsConst() && b.Val == 0 {
			return b
		}
		if b.IsConst() && b.Val == 1 {
			return a
		}
	case OpBAnd:
		if a == b {
			return a
		}
		if a.IsConst() {
			a, b = b, a
		}
		if b.IsConst() && b.Val == 0 {
			return b
		}
		if b.IsConst() && b.Val == mask(w) {
			return a
		}
	case OpBOr, OpBXor:
		if a.IsConst() {
			a, b = b, a
		}
		if b.IsConst() && b.Val == 0 {
			return a
		}
		if op == OpBOr && a == b {
			return a
		}
	case OpShl, OpLShr, OpAShr:
		if b.IsConst() && b.Val == 0 {
			return a
		}
	}
	return c.mk(&Term{Op: op, W: w, Args: []*Term{a, b}})
}

func (c *Ctx) Add(a, b *Term) *Term  { return c.bin(OpAdd, a, b) }
func (c *Ctx) Sub(a, b *Term) *Term  { return c.bin(OpSub, a, b) }
func (c *Ctx) Mul(a, b *Term) *Term  { return c.bin(OpMul, a, b) }
func (c *Ctx) UDiv(a, b *Term) *Term { return c.bin(OpUDiv, a, b) }
func (c *Ctx) URem(a, b *Term) *Term { return c.bin(OpURem, a, b) }
func (c *Ctx) SDiv(a, b *Term) *Term { return c.bin(OpSDiv, a, b) }
func (c *Ctx) SRem(a, b *Term) *Term { return c.bin(OpSRem, a, b) }
func (c *Ctx) BAnd(a, b *Term) *Term { return c.bin(OpBAnd, a, b) }
func (c *Ctx) BOr(a, b *Term) *Term  { return c.bin(OpBOr, a, b) }
func (c *Ctx) BXor(a, b *Term) *Term { return c.bin(OpBXor, a, b) }
func (c *Ctx) Shl(a, b *Term) *Term  { return c.bin(OpShl, a, b) }
func (c *Ctx) LShr(a, b *Term) *Term { return c.bin(OpLShr, a, b) }
func (c *Ctx) AShr(a, b *Term) *Term { return c.bin(OpAShr, a, b) }

func (c *Ctx) BNot(a *Term) *Term {
	if a.IsConst() {
		return c.Const(^a.Val, a.W)
	}
	return c.mk(&Term{Op: OpBNot, W: a.W, Args: []*Term{a}})
}

func (c *Ctx) Neg(a *Term) *Term {
	if a.IsConst() {
		return c.Const(-a.Val, a.W)
	}
	return c.mk(&Term{Op: OpNeg, W: a.W, Args: []*Term{a}})
}

func (c *Ctx) cmp(op Op, a, b *Term) *Term {
	if a.W != b.W || a.W == 0 {
		panic(fmt.Sprintf("sym.cmp width mismatch %d vs %d", a.W, b.W))
	}
	if a.IsConst() && b.IsConst() {
		switch op {
		case OpULt:
			return c.Bool(a.Val < b.Val)
		case OpULe:
			return c.Bool(a.Val <= b.Val)
		case OpSLt:
			return c.Bool(sext64(a.Val, a.W) < sext64(b.Val, a.W))
		case OpSLe:
			return c.Bool(sext64(a.Val, a.W) <= sext64(b.Val, a.W))
		}
	}
	if a == b {
		return c.Bool(op == OpULe || op == OpSLe)
	}
	switch op {
	case OpULt:
		if b.IsConst() && b.Val == 0 {
			return c.F
		}
		if a.IsConst() && a.Val == mask(a.W) {
			return c.F
		}
	case OpULe:
		if a.IsConst() && a.Val == 0 {
			return c.T
		}
		if b.IsConst() && b.Val == mask(a.W) {
			return c.T
		}
	}
	return c.mk(&Term{Op: op, Args: []*Term{a, b}})
}

func (c *Ctx) ULt(a, b *Term) *Term { return c.cmp(OpULt, a, b) }
func (c *Ctx) ULe(a, b *Term) *Term { return c.cmp(OpULe, a, b) }
func (c *Ctx) SLt(a, b *Term) *Term { return c.cmp(OpSLt, a, b) }
func (c *Ctx) SLe(a, b *Term) *Term { return c.cmp(OpSLe, a, b) }

func (c *Ctx) ZExt(a *Term, w int) *Term {
	if w == a.W {
		return a
	}
	if w < a.W {
		panic("sym.ZExt narrowing")
	}
	if a.IsConst() {
		return c.Const(a.Val, w)
	}
	return c.mk(&Term{Op: OpZExt, W: w, Args: []*Term{a}})
}

func (c *Ctx) SExt(a *Term, w int) *Term {
	if w == a.W {
		return a
	}
	if w < a.W {
		panic("sym.SExt narrowing")
	}
	if a.IsConst() {
		return c.Const(uint64(sext64(a.Val, a.W)), w)
	}
	return c.mk(&Term{Op: OpSExt, W: w, Args: []*Term{a}})
}

func (c *Ctx) Extract(a *Term, hi, lo int) *Term {
	w := hi - lo + 1
	if lo == 0 && w == a.W {
		return a
	}
	if a.IsConst() {
		return c.Const(a.Val>>uint(lo), w)
	}
	if (a.Op == OpZExt || a.Op == OpSExt) && lo == 0 && w <= a.Args[0].W {
		return c.Extract(a.Args[0], hi, 0)
	}
	return c.mk(&Term{Op: OpExtract, W: w, Args: []*Term{a}, Aux: hi<<8 | lo})
}

func (c *Ctx) Concat(hi, lo *Term) *Term {
	w := hi.W + lo.W
	if w > 64 {
		panic("sym.Concat too wide")
	}
	if hi.IsConst() && lo.IsConst() {
		return c.Const(hi.Val<<uint(lo.W)|lo.Val, w)
	}
	return c.mk(&Term{Op: OpConcat, W: w, Args: []*Term{hi, lo}})
}

// BoolToBV converts a Bool to a 1/0 bit-vector of width w.
func (c *Ctx) BoolToBV(b *Term, w int) *Term {
	return c.Ite(b, c.Const(1, w), c.Const(0, w))
}

func sortStr(w int) string {
	if w == 0 {
		return "Bool"
	}
	return fmt.Sprintf("(_ BitVec %d)", w)
}

// SMTName is the solver-level name of a term.
func (t *Term) SMTName() string {
	switch t.Op {
	case OpConst:
		if t.W == 0 {
			if t.Val == 1 {
				return "true"
			}
			return "false"
		}
		return fmt.Sprintf("(_ bv%d %d)", t.Val, t.W)
	case OpVar:
		return t.Name
	}
	return fmt.Sprintf("t%d", t.ID)
}

func SortStr(w int) string { return sortStr(w) }

// Body renders the defining expression of t over the given argument symbols.
func (t *Term) Body(args []string) string {
	switch t.Op {
	case OpVar:
		return fmt.Sprintf("var:%s:%d", t.Name, t.W)
	case OpZExt:
		return fmt.Sprintf("((_ zero_extend %d) %s)", t.W-t.Args[0].W, args[0])
	case OpSExt:
		return fmt.Sprintf("((_ sign_extend %d) %s)", t.W-t.Args[0].W, args[0])
	case OpExtract:
		return fmt.Sprintf("((_ extract %d %d) %s)", t.Aux>>8, t.Aux&0xff, args[0])
	}
	return "(" + opNames[t.Op] + " " + strings.Join(args, " ") + ")"
}

// Def returns the SMT-LIB2 command that introduces t (declare-const for
// variables, define-fun for compound terms, "" for constants).
func (t *Term) Def() string {
	switch t.Op {
	case OpConst:
		return ""
	case OpVar:
		return fmt.Sprintf("(declare-const %s %s)", t.Name, sortStr(t.W))
	}
	var sb strings.Builder
	fmt.Fprintf(&sb, "(define-fun t%d () %s ", t.ID, sortStr(t.W))
	switch t.Op {
	case OpZExt:
		fmt.Fprintf(&sb, "((_ zero_extend %d) %s)", t.W-t.Args[0].W, t.Args[0].SMTName())
	case OpSExt:
		fmt.Fprintf(&sb, "((_ sign_extend %d) %s)", t.W-t.Args[0].W, t.Args[0].SMTName())
	case OpExtract:
		fmt.Fprintf(&sb, "((_ extract %d %d) %s)", t.Aux>>8, t.Aux&0xff, t.Args[0].SMTName())
	default:
		sb.WriteByte('(')
		sb.WriteString(opNames[t.Op])
		for _, a := range t.Args {
			sb.WriteByte(' ')
			sb.WriteString(a.SMTName())
		}
		sb.WriteByte(')')
	}
	sb.WriteByte(')')
	return sb.String()
}

// Eval evaluates t under an assignment of variable names to values. Missing
// variables evaluate to 0.
func Eval(t *Term, m map[string]uint64, memo map[int]uint64) uint64 {
	if v, ok := memo[t.ID]; ok {
		return v
	}
	var r uint64
	arg := func(i int) uint64 { return Eval(t.Args[i], m, memo) }
	b2u := func(b bool) uint64 {
		if b {
			return 1
		}
		return 0
	}
	switch t.Op {
	case OpConst:
		r = t.Val
	case OpVar:
		r = m[t.Name] & mask(max(t.W, 1))
	case OpNot:
		r = 1 - arg(0)
	case OpAnd:
		r = 1
		for i := range t.Args {
			if arg(i) == 0 {
				r = 0
				break
			}
		}
	case OpOr:
		r = 0
		for i := range t.Args {
			if arg(i) == 1 {
				r = 1
				break
			}
		}
	case OpEq:
		r = b2u(arg(0) == arg(1))
	case OpIte:
		if arg(0) == 1 {
			r = arg(1)
		} else {
			r = arg(2)
		}
	case OpBNot:
		r = ^arg(0) & mask(t.W)
	case OpNeg:
		r = -arg(0) & mask(t.W)
	case OpULt:
		r = b2u(arg(0) < arg(1))
	case OpULe:
		r = b2u(arg(0) <= arg(1))
	case OpSLt:
		r = b2u(sext64(arg(0), t.Args[0].W) < sext64(arg(1), t.Args[0].W))
	case OpSLe:
		r = b2u(sext64(arg(0), t.Args[0].W) <= sext64(arg(1), t.Args[0].W))
	case OpZExt:
		r = arg(0)
	case OpSExt:
		r = uint64(sext64(arg(0), t.Args[0].W)) & mask(t.W)
	case OpExtract:
		r = (arg(0) >> uint(t.Aux&0xff)) & mask(t.W)
	case OpConcat:
		r = arg(0)<<uint(t.Args[1].W) | arg(1)
	default:
		// binary arithmetic: reuse folding
		c := t.ctx
		x := c.bin(t.Op, &Term{Op: OpConst, W: t.W, Val: arg(0)}, &Term{Op: OpConst, W: t.W, Val: arg(1)})
		r = x.Val
	}
	memo[t.ID] = r
	return r
}

var _ = bits.Len

// SignExtend sign-extends the w-bit value v to 64 bits.
func SignExtend(v uint64, w int) uint64 { return uint64(sext64(v, w)) }
