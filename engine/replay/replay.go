// Package replay executes harness paths natively (real compiler, real
// libraries) through `go test -overlay` and reports what happened.
package replay

import (
	"bufio"
	"bytes"
	"encoding/json"
	"fmt"
	"os"
	"os/exec"
	"path/filepath"
	"sort"
	"strconv"
	"strings"
	"time"
)

type Vector struct {
	ID      int      `json:"id"`
	Harness string   `json:"harness"`
	Vals    []string `json:"vals"` // decimal uint64
	Labels  []string `json:"labels,omitempty"` // label prefixes selected by the check
}

type Result struct {
	ID     int      `json:"id"`
	Status string   `json:"status"` // return | assume | assert:<label> | panic
	Detail string   `json:"detail"`
	Obs    []string `json:"obs"`
}

// PkgOf maps a harness name to the repo-relative package dir ("" = root).
type Batch struct {
	RepoDir    string
	HarnessDir string            // /verif/harness
	PkgDir     string            // "" | quorum | tracker | confchange
	PkgName    string            // raft | quorum | ...
	Harnesses  []string          // harness function names in this package
	Overlay    map[string][]byte // engine's overlay (abs path -> content)
	Vectors    []Vector
	WorkDir    string // scratch directory (created by caller)
	Timeout    time.Duration
}

const testTemplate = `//go:build verif

package PKGNAME

import (
	"encoding/json"
	"fmt"
	"os"
	"strconv"
	"testing"
)

var vpHarnessTable = map[string]func(){
HARNESSES}

type vpVecIn struct {
	ID      int      ` + "`json:\"id\"`" + `
	Harness string   ` + "`json:\"harness\"`" + `
	Vals    []string ` + "`json:\"vals\"`" + `
	Labels  []string ` + "`json:\"labels\"`" + `
}

type vpResOut struct {
	ID     int      ` + "`json:\"id\"`" + `
	Status string   ` + "`json:\"status\"`" + `
	Detail string   ` + "`json:\"detail\"`" + `
	Obs    []string ` + "`json:\"obs\"`" + `
}

func vpRunOne(fn func(), vals []uint64) (status, detail string) {
	vpVec = vpVector{vals: vals}
	vpObsOut = nil
	vpBlobCount = 0
	vpFirstFail = ""
	if vpOnReset != nil {
		vpOnReset()
	}
	defer func() {
		r := recover()
		switch r := r.(type) {
		case nil:
		case vpAssumeFailed:
			status = "assume"
		case vpAssertFailed:
			status = "assert:" + r.label
		default:
			status = "panic"
			detail = fmt.Sprint(r)
		}
	}()
	fn()
	return "return", ""
}

func TestVPReplay(t *testing.T) {
	data, err := os.ReadFile(os.Getenv("VP_REPLAY_FILE"))
	if err != nil {
		t.Fatal(err)
	}
	var vecs []vpVecIn
	if err := json.Unmarshal(data, &vecs); err != nil {
		t.Fatal(err)
	}
	out, err := os.Create(os.Getenv("VP_REPLAY_OUT"))
	if err != nil {
		t.Fatal(err)
	}
	defer out.Close()
	for _, v := range vecs {
		fn := vpHarnessTable[v.Harness]
		if fn == nil {
			t.Fatalf("unknown harness %s", v.Harness)
		}
		vals := make([]uint64, len(v.Vals))
		for i, s := range v.Vals {
			vals[i], _ = strconv.ParseUint(s, 10, 64)
		}
		vpSelLabels = v.Labels
		st, det := vpRunOne(fn, vals)
		b, _ := json.Marshal(vpResOut{ID: v.ID, Status: st, Detail: det, Obs: vpObsOut})
		fmt.Fprintf(out, "%s\n", b)
	}
}
`

// Run executes the batch and returns results by vector id.
func (b *Batch) Run() (map[int]Result, string, error) {
	if len(b.Vectors) == 0 {
		return map[int]Result{}, "", nil
	}
	if err := os.MkdirAll(b.WorkDir, 0o755); err != nil {
		return nil, "", err
	}
	repl := map[string]string{}
	i := 0
	for path, content := range b.Overlay {
		f := filepath.Join(b.WorkDir, fmt.Sprintf("ov%d_%s", i, filepath.Base(path)))
		i++
		if err := os.WriteFile(f, content, 0o644); err != nil {
			return nil, "", err
		}
		repl[path] = f
	}
	sort.Strings(b.Harnesses)
	var hs strings.Builder
	for _, h := range b.Harnesses {
		fmt.Fprintf(&hs, "\t%q: %s,\n", h, h)
	}
	src := strings.Replace(testTemplate, "PKGNAME", b.PkgName, 1)
	src = strings.Replace(src, "HARNESSES", hs.String(), 1)
	testFile := filepath.Join(b.WorkDir, "zz_vp_replay_"+b.PkgName+"_test.go")
	if err := os.WriteFile(testFile, []byte(src), 0o644); err != nil {
		return nil, "", err
	}
	repl[filepath.Join(b.RepoDir, b.PkgDir, "zz_vp_replay_test.go")] = testFile
	ovJSON, _ := json.Marshal(map[string]interface{}{"Replace": repl})
	ovFile := filepath.Join(b.WorkDir, "overlay_"+b.PkgName+".json")
	if err := os.WriteFile(ovFile, ovJSON, 0o644); err != nil {
		return nil, "", err
	}
	vecFile := filepath.Join(b.WorkDir, "vectors_"+b.PkgName+".json")
	vj, _ := json.Marshal(b.Vectors)
	if err := os.WriteFile(vecFile, vj, 0o644); err != nil {
		return nil, "", err
	}
	outFile := filepath.Join(b.WorkDir, "results_"+b.PkgName+".jsonl")
	os.Remove(outFile)
	pkg := "./" + b.PkgDir
	if b.PkgDir == "" {
		pkg = "."
	}
	tmo := b.Timeout
	if tmo == 0 {
		tmo = 10 * time.Minute
	}
	cmd := exec.Command("go", "test", "-tags", "verif", "-vet=off", "-count=1", "-run", "^TestVPReplay$", "-timeout", tmo.String(), "-overlay", ovFile, pkg)
	cmd.Dir = b.RepoDir
	cmd.Env = append(os.Environ(), "VP_REPLAY_FILE="+vecFile, "VP_REPLAY_OUT="+outFile,
		"GOFLAGS=-mod=mod", "GOPROXY=off", "GOSUMDB=off", "GOTOOLCHAIN=local")
	var buf bytes.Buffer
	cmd.Stdout = &buf
	cmd.Stderr = &buf
	err := cmd.Run()
	logTxt := buf.String()
	res := map[int]Result{}
	f, ferr := os.Open(outFile)
	if ferr == nil {
		sc := bufio.NewScanner(f)
		sc.Buffer(make([]byte, 1<<20), 1<<26)
		for sc.Scan() {
			var r Result
			if json.Unmarshal(sc.Bytes(), &r) == nil {
				res[r.ID] = r
			}
		}
		f.Close()
	}
	if err != nil && len(res) < len(b.Vectors) {
		return res, logTxt, fmt.Errorf("native replay failed: %v\n%s", err, tail(logTxt, 40))
	}
	return res, logTxt, nil
}

func tail(s string, n int) string {
	lines := strings.Split(s, "\n")
	if len(lines) > n {
		lines = lines[len(lines)-n:]
	}
	return strings.Join(lines, "\n")
}

func U64s(vals []uint64) []string {
	out := make([]string, len(vals))
	for i, v := range vals {
		out[i] = strconv.FormatUint(v, 10)
	}
	return out
}
