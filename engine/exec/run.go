package exec

import (
	"fmt"
	"os"
	"sort"
	"strings"
	"sync"
	"time"

	"golang.org/x/tools/go/ssa"

	"vsym/solver"
	"vsym/sym"
)

type Options struct {
	Workers     int
	MaxSteps    int // instructions per run
	Unwind      int // back-edge limit per frame/loop
	MaxPaths    int
	Deadline    time.Time
	SolverKind  string
	TimeoutMs   int
	OrderPolicy int // 0 ascending, 1 descending, 2 rotate-by-one, 3 rotate-by-two, 4 adjacent pairs swapped, 5 tail reversed (0..5 = all six orders of a three-key map)
	MaxViol     int
	SampleEvery int
	LabelPrefixes []string // nil/empty = all labels checked
	PanicIsViolation bool
	Verbose     bool
	IncTimeoutMs int   // timeout of the incremental solver before falling back to a fresh one-shot process
	AssertGroup int    // obligations per solver query (default 6)
	OnlyPrefix  string // development: run just this decision prefix
	SMTLog      string
}

// ParsePrefix parses the output of DecStr.
func ParsePrefix(s string) []Decision {
	var out []Decision
	for _, part := range strings.Split(s, ".") {
		if part == "" {
			continue
		}
		var v uint64
		fmt.Sscanf(part[1:], "%d", &v)
		out = append(out, Decision{Kind: part[0], Val: v})
	}
	return out
}

type Decision struct {
	Kind byte   // 'b' branch, 'c' choose, 'v' concretized value
	Val  uint64 // branch: 1 = true; choose: index; value: the value
}

func (o *Options) labelSelected(label string) bool {
	if len(o.LabelPrefixes) == 0 {
		return true
	}
	for _, p := range o.LabelPrefixes {
		if p == "*" || strings.HasPrefix(label, p) {
			return true
		}
	}
	return false
}

func DecStr(ds []Decision) string { return decStr(ds) }

func decStr(ds []Decision) string {
	var sb strings.Builder
	for _, d := range ds {
		fmt.Fprintf(&sb, "%c%d.", d.Kind, d.Val)
	}
	return sb.String()
}

// PathResult summarises one completed run.
type PathResult struct {
	Harness   string
	Prefix    []Decision
	Status    string // return | assume | panic | unsupported | budget | unwind | solver | nondet
	Msg       string
	Site      string
	Inputs    []InputRec // inputs in creation order (for replay)
	Model     map[string]uint64
	Obs       []ObsRec
	Asserts   []AssertRec
	Steps     int
	Decisions int
}

type InputRec struct {
	Name string
	Kind string // u64 | bool | choose | bloblen | blobnil
	W    int
	Val  uint64 // concrete for choose; model value otherwise (filled when a model exists)
}

type ObsRec struct {
	Label string
	Vals  []uint64
}

type AssertRec struct {
	Label    string
	Site     string
	Verdict  string // proved | trivially-true | violated | unknown
	Model    map[string]uint64
}

type Violation struct {
	Harness string
	Label   string
	Site    string
	Prefix  []Decision
	Inputs  []InputRec
	Model   map[string]uint64
	Msg     string
	Kind    string // assert | panic | nondet
}

type SiteStat struct {
	Label   string
	Site    string
	Reached int
	Proved  int
	Trivial int
	Witness *PathSample
}

type PathSample struct {
	Harness string
	Prefix  string
	Inputs  []InputRec
	Status  string
	Site    string
	Obs     []ObsRec
	Label   string
}

// Explorer explores all paths of one harness.
type Explorer struct {
	P       *Program
	Fn      *ssa.Function
	Name    string
	Opt     Options

	mu        sync.Mutex
	cond      *sync.Cond
	work      [][]Decision   // shared overflow / initial work
	locals    [][][]Decision // per-worker depth-first stacks
	active    int
	stop      bool

	// results
	Paths       int
	StatusCount map[string]int
	Transitions int
	Sites       map[string]*SiteStat
	Violations  []Violation
	Inconcl     []string
	Samples     []PathSample
	Funcs       map[string]int // function -> calls
	Instrs      int
	Solver      solver.Stats
	PanicSites  map[string]int
	Bounds      map[string]string
	AssumeSeen  map[string]bool
	MapRangeSites map[string]bool
	Recovered   int
	Stubs       map[string]int
	HasInternalVars bool
	FreshQueries int
}

func NewExplorer(p *Program, name string, fn *ssa.Function, opt Options) *Explorer {
	ex := &Explorer{P: p, Fn: fn, Name: name, Opt: opt,
		StatusCount: map[string]int{}, Sites: map[string]*SiteStat{}, Funcs: map[string]int{},
		Stubs: map[string]int{}, PanicSites: map[string]int{}, Bounds: map[string]string{}, AssumeSeen: map[string]bool{}, MapRangeSites: map[string]bool{}}
	ex.cond = sync.NewCond(&ex.mu)
	return ex
}

func (ex *Explorer) Explore() {
	ex.work = [][]Decision{nil}
	if ex.Opt.OnlyPrefix != "" {
		ex.work = [][]Decision{ParsePrefix(ex.Opt.OnlyPrefix)}
		ex.Opt.Workers = 1
	}
	ex.locals = make([][][]Decision, ex.Opt.Workers)
	var wg sync.WaitGroup
	for i := 0; i < ex.Opt.Workers; i++ {
		wg.Add(1)
		go func(id int) {
			defer wg.Done()
			ex.worker(id)
		}(i)
	}
	wg.Wait()
	if n := ex.pending(); n > 0 {
		ex.Inconcl = append(ex.Inconcl, fmt.Sprintf("budget exhausted with %d unexplored prefixes", n))
	}
}

func (ex *Explorer) take(wid int) ([]Decision, bool) {
	ex.mu.Lock()
	defer ex.mu.Unlock()
	for {
		if ex.stop {
			return nil, false
		}
		// own stack first (depth-first: maximal prefix sharing with the last run)
		if n := len(ex.locals[wid]); n > 0 {
			p := ex.locals[wid][n-1]
			ex.locals[wid] = ex.locals[wid][:n-1]
			ex.active++
			return p, true
		}
		if n := len(ex.work); n > 0 {
			p := ex.work[n-1]
			ex.work = ex.work[:n-1]
			ex.active++
			return p, true
		}
		// steal the oldest (shallowest) prefix of the fullest victim
		victim, best := -1, 0
		for i := range ex.locals {
			if len(ex.locals[i]) > best {
				victim, best = i, len(ex.locals[i])
			}
		}
		if victim >= 0 {
			p := ex.locals[victim][0]
			ex.locals[victim] = ex.locals[victim][1:]
			ex.active++
			return p, true
		}
		if ex.active == 0 {
			ex.cond.Broadcast()
			return nil, false
		}
		ex.cond.Wait()
	}
}

func (ex *Explorer) done() {
	ex.mu.Lock()
	ex.active--
	if ex.active == 0 && ex.pending() == 0 {
		ex.cond.Broadcast()
	}
	ex.mu.Unlock()
}

func (ex *Explorer) push(wid int, p []Decision) {
	if ex.Opt.OnlyPrefix != "" {
		return
	}
	ex.mu.Lock()
	ex.locals[wid] = append(ex.locals[wid], p)
	ex.cond.Signal()
	ex.mu.Unlock()
}

func (ex *Explorer) pending() int {
	n := len(ex.work)
	for _, l := range ex.locals {
		n += len(l)
	}
	return n
}

func (ex *Explorer) worker(id int) {
	inc := ex.Opt.IncTimeoutMs
	if inc == 0 {
		inc = 4000
	}
	sp, err := solver.Start(ex.Opt.SolverKind, inc)
	if err != nil {
		ex.mu.Lock()
		ex.Inconcl = append(ex.Inconcl, "cannot start solver: "+err.Error())
		ex.stop = true
		ex.cond.Broadcast()
		ex.mu.Unlock()
		return
	}
	if ex.Opt.SMTLog != "" && id == 0 {
		f, _ := os.Create(ex.Opt.SMTLog)
		sp.Log = f
	}
	defer func() {
		ex.mu.Lock()
		s := sp.Stats
		ex.Solver.Queries += s.Queries
		ex.Solver.Sat += s.Sat
		ex.Solver.Unsat += s.Unsat
		ex.Solver.Unknown += s.Unknown
		ex.Solver.Seconds += s.Seconds
		ex.Solver.Errors += s.Errors
		if s.MaxQuery > ex.Solver.MaxQuery {
			ex.Solver.MaxQuery = s.MaxQuery
		}
		ex.mu.Unlock()
		sp.Close()
	}()
	sess := newSession(sp)
	for {
		prefix, ok := ex.take(id)
		if !ok {
			return
		}
		r := newRun(ex, sess, prefix)
		r.wid = id
		r.execute()
		ex.record(r)
		ex.done()
		ex.mu.Lock()
		over := (ex.Opt.MaxPaths > 0 && ex.Paths >= ex.Opt.MaxPaths) || (!ex.Opt.Deadline.IsZero() && time.Now().After(ex.Opt.Deadline)) || len(ex.Violations) >= ex.Opt.MaxViol
		if over {
			ex.stop = true
			ex.cond.Broadcast()
		}
		ex.mu.Unlock()
	}
}

// session is the persistent solver state of one worker. Its assertion stack
// mirrors the decisions of the most recent run (one solver frame per
// decision), so that the next run — which in depth-first order shares a long
// decision prefix — re-uses everything asserted for the common prefix.
type session struct {
	sp      *solver.Proc
	decs    []Decision       // decisions whose frames are on the solver stack
	byBody  map[string]string // structural definition -> solver symbol
	symLvl  map[string]int    // solver symbol -> level it was defined at
	bodyOf  map[string]string // solver symbol -> body (for removal)
	asserts [][]string        // per level: asserted symbols, in order
	nsym    int
	valid   bool
}

func newSession(sp *solver.Proc) *session {
	return &session{sp: sp}
}

// reset discards everything on the solver stack.
func (se *session) reset() {
	if se.valid {
		se.sp.Send(fmt.Sprintf("(pop %d)", len(se.decs)+1))
	}
	se.sp.Send("(push 1)")
	se.decs = nil
	se.byBody = map[string]string{}
	se.symLvl = map[string]int{}
	se.bodyOf = map[string]string{}
	se.asserts = [][]string{nil}
	se.valid = true
}

// popTo keeps levels 0..c.
func (se *session) popTo(c int) {
	n := len(se.decs) - c
	if n <= 0 {
		return
	}
	se.sp.Send(fmt.Sprintf("(pop %d)", n))
	se.decs = se.decs[:c]
	se.asserts = se.asserts[:c+1]
	for sym, lvl := range se.symLvl {
		if lvl > c {
			delete(se.byBody, se.bodyOf[sym])
			delete(se.bodyOf, sym)
			delete(se.symLvl, sym)
		}
	}
}

// Run is one path.
type Run struct {
	wid        int
	sess       *session
	keepLevels int // levels 0..keepLevels-1 of the solver stack are re-used
	shadowPos  []int
	names      map[int]string
	ex      *Explorer
	sp      *solver.Proc
	in      *Interp
	prefix  []Decision
	taken   []Decision
	pos     int
	pc      []*sym.Term
	defined map[int]bool
	inputs  []InputRec
	inTerms []*sym.Term
	nIn     int
	nRnd    int
	status  string
	msg     string
	site    string
	asserts []AssertRec
	funcs   map[string]int
	viol    []Violation
	finalModel map[string]uint64
	recovered int
	solverDead bool
	pending   []pendingAssert
	purpose   string
	pcSet     map[int]bool
	inCursor  int
	rndCursor int
	rndTerms  []*sym.Term
	orderPolicy int
	stubs     map[string]int
	bounds    map[string]string
	blobLens  []*sym.Term
}

func newRun(ex *Explorer, se *session, prefix []Decision) *Run {
	r := &Run{ex: ex, sp: se.sp, sess: se, names: map[int]string{}, pcSet: map[int]bool{}, prefix: prefix, defined: map[int]bool{}, funcs: map[string]int{}, stubs: map[string]int{}, bounds: map[string]string{}}
	r.orderPolicy = ex.Opt.OrderPolicy
	ctx := sym.NewCtx()
	r.in = &Interp{P: ex.P, ctx: ctx, run: r, globals: map[*ssa.Global]Ptr{}}
	return r
}

func (r *Run) noteFunction(name string) { r.funcs[name]++ }
func (r *Run) noteRecovered(p *targetPanic) { r.recovered++ }

func (r *Run) align() {
	se := r.sess
	if !se.valid || len(se.decs) == 0 {
		se.reset()
		r.keepLevels = 0
		return
	}
	c := 0
	for c < len(se.decs) && c < len(r.prefix) && se.decs[c] == r.prefix[c] {
		c++
	}
	if c >= len(se.decs) {
		c = len(se.decs) - 1
	}
	se.popTo(c)
	r.keepLevels = c + 1
	r.shadowPos = make([]int, c+1)
}

func (r *Run) execute() {
	r.align()
	defer func() {
		if r.status == "solver" || r.sp.ErrMsg != "" {
			r.sess.valid = false
			if r.sp.ErrMsg != "" && r.status != "solver" {
				// an (error ...) line was seen: nothing this run concluded is trusted
				r.status, r.msg = "solver", "solver reported: "+r.sp.ErrMsg
			}
			r.sp.ErrMsg = ""
			r.sp.Send(fmt.Sprintf("(pop %d)", len(r.sess.decs)+1))
		}
	}()
	defer func() {
		x := recover()
		switch x := x.(type) {
		case nil:
		case *targetPanic:
			r.status, r.msg, r.site = "panic", x.msg, x.site
		case *runAbort:
			r.status, r.msg = x.kind, x.msg
		default:
			panic(x)
		}
		if r.status != "solver" {
			// discharge what is still pending, whatever ended the run
			func() {
				defer func() {
					if y := recover(); y != nil {
						ab, ok := y.(*runAbort)
						if !ok {
							panic(y)
						}
						if ab.kind != "assume" {
							r.status, r.msg = ab.kind, ab.msg
						}
					}
				}()
				r.flushAsserts()
			}()
		}
		if r.status != "assume" && r.status != "solver" && r.ex.wantsModel(r) {
			r.captureModel()
		}
	}()
	in := r.in
	// package initialisers
	in.initing = true
	for _, path := range []string{RepoModule + "/quorum", RepoModule + "/tracker", RepoModule + "/confchange", RepoModule} {
		if sp := r.ex.P.Pkgs[path]; sp != nil {
			if init := sp.Func("init"); init != nil {
				in.callSSA(nil, nil, init, nil, nil)
			}
		}
	}
	in.initing = false
	in.steps = 0
	in.callSSA(nil, nil, r.ex.Fn, nil, nil)
	r.status = "return"
}

// ---- solver plumbing ----

// name returns the solver symbol of t, defining it in the session if needed.
func (r *Run) name(t *sym.Term) string {
	if t.Op == sym.OpConst {
		return t.SMTName()
	}
	if n, ok := r.names[t.ID]; ok {
		return n
	}
	se := r.sess
	args := make([]string, len(t.Args))
	for i, a := range t.Args {
		args[i] = r.name(a)
	}
	body := t.Body(args)
	if n, ok := se.byBody[body]; ok {
		r.names[t.ID] = n
		r.defined[t.ID] = true
		return n
	}
	var n string
	if t.Op == sym.OpVar {
		n = t.Name
		se.sp.Send(fmt.Sprintf("(declare-const %s %s)", n, sym.SortStr(t.W)))
	} else {
		se.nsym++
		n = fmt.Sprintf("s%d", se.nsym)
		se.sp.Send(fmt.Sprintf("(define-fun %s () %s %s)", n, sym.SortStr(t.W), body))
	}
	se.byBody[body] = n
	se.bodyOf[n] = body
	se.symLvl[n] = len(se.decs)
	r.names[t.ID] = n
	r.defined[t.ID] = true
	return n
}

func (r *Run) define(t *sym.Term) { r.name(t) }

func (r *Run) addPC(t *sym.Term) {
	if t.IsTrue() {
		return
	}
	if t.Op == sym.OpAnd {
		// conjunctions are asserted clause by clause so that a later
		// obligation identical to an assumed clause is recognised as implied
		for _, a := range t.Args {
			r.addPC(a)
		}
		return
	}
	if r.pcSet[t.ID] {
		return
	}
	r.pcSet[t.ID] = true
	r.pc = append(r.pc, t)
	n := r.name(t)
	lvl := r.pos
	if lvl < r.keepLevels {
		// this level of the solver stack is re-used from the previous run:
		// verify that the same formula was asserted there, in the same order
		k := r.shadowPos[lvl]
		as := r.sess.asserts[lvl]
		if k >= len(as) || as[k] != n {
			panic(fmt.Sprintf("engine error: non-deterministic re-execution at level %d (assert %d: %s)", lvl, k, n))
		}
		r.shadowPos[lvl]++
		return
	}
	r.sess.asserts[lvl] = append(r.sess.asserts[lvl], n)
	r.sp.Send("(assert " + n + ")")
}

// check decides satisfiability of pc ∧ extra.
func (r *Run) check(extra *sym.Term) solver.Result {
	_, res := r.query(extra, false)
	return res
}

func (r *Run) modelFor(extra *sym.Term) (map[string]uint64, solver.Result) {
	return r.query(extra, true)
}

// query asks the incremental solver first (short timeout); if that is
// inconclusive the whole path condition is replayed into a fresh one-shot
// solver process with the full timeout.
func (r *Run) query(extra *sym.Term, wantModel bool) (map[string]uint64, solver.Result) {
	if extra.IsFalse() {
		return nil, solver.Unsat
	}
	en := r.name(extra)
	r.sp.Send("(push 1)")
	r.sp.Send("(assert " + en + ")")
	t0 := time.Now()
	res := r.sp.CheckSat()
	if d := time.Since(t0).Seconds(); os.Getenv("VSYM_SLOW") != "" {
		fmt.Fprintf(os.Stderr, "slow query %.3fs res=%v purpose=%s pc=%d\n", d, res, r.purpose, len(r.pc))
	}
	var m map[string]uint64
	if res == solver.Sat && wantModel {
		m = r.getModel(r.sp)
	}
	r.sp.Send("(pop 1)")
	if res != solver.Unknown {
		return m, res
	}
	if r.sp.ErrMsg != "" {
		return nil, solver.Unknown
	}
	return r.freshQuery(extra, wantModel)
}

func (r *Run) freshQuery(extra *sym.Term, wantModel bool) (map[string]uint64, solver.Result) {
	sp, err := solver.Start(r.ex.Opt.SolverKind, r.ex.Opt.TimeoutMs)
	if err != nil {
		return nil, solver.Unknown
	}
	defer func() {
		r.ex.mu.Lock()
		r.ex.Solver.Queries += sp.Stats.Queries
		r.ex.Solver.Sat += sp.Stats.Sat
		r.ex.Solver.Unsat += sp.Stats.Unsat
		r.ex.Solver.Unknown += sp.Stats.Unknown
		r.ex.Solver.Seconds += sp.Stats.Seconds
		r.ex.FreshQueries++
		if sp.Stats.MaxQuery > r.ex.Solver.MaxQuery {
			r.ex.Solver.MaxQuery = sp.Stats.MaxQuery
		}
		r.ex.mu.Unlock()
		sp.Close()
	}()
	// definitions of everything reachable from pc and extra, in creation
	// order (arguments precede users)
	need := map[int]bool{}
	var visit func(t *sym.Term)
	visit = func(t *sym.Term) {
		if t.Op == sym.OpConst || need[t.ID] {
			return
		}
		need[t.ID] = true
		for _, a := range t.Args {
			visit(a)
		}
	}
	for _, t := range r.pc {
		visit(t)
	}
	visit(extra)
	for _, v := range r.in.ctx.Vars {
		if r.defined[v.ID] {
			need[v.ID] = true
		}
	}
	ids := make([]int, 0, len(need))
	for id := range need {
		ids = append(ids, id)
	}
	sort.Ints(ids)
	for _, id := range ids {
		if d := r.in.ctx.TermByID(id).Def(); d != "" {
			sp.Send(d)
		}
	}
	for _, t := range r.pc {
		sp.Send("(assert " + t.SMTName() + ")")
	}
	sp.Send("(assert " + extra.SMTName() + ")")
	res := sp.CheckSat()
	var m map[string]uint64
	if res == solver.Sat && wantModel {
		m = r.getModel(sp)
	}
	if res == solver.Unknown && sp.ErrMsg != "" {
		r.sp.ErrMsg = sp.ErrMsg
	}
	return m, res
}

func (r *Run) getModel(sp *solver.Proc) map[string]uint64 {
	var names []string
	for _, v := range r.in.ctx.Vars {
		if r.defined[v.ID] {
			names = append(names, v.Name)
		}
	}
	if len(names) == 0 {
		return map[string]uint64{}
	}
	m, err := sp.GetValues(names)
	if err != nil {
		panic(&runAbort{kind: "solver", msg: "get-value failed: " + err.Error()})
	}
	return m
}

func (r *Run) captureModel() {
	defer func() {
		if x := recover(); x != nil {
			if _, ok := x.(*runAbort); !ok {
				panic(x)
			}
		}
	}()
	r.purpose = "capture-model"
	m, res := r.modelFor(r.smallBlobs())
	if res != solver.Sat {
		m, res = r.modelFor(r.in.ctx.T)
	}
	if res == solver.Sat {
		r.finalModel = m
	}
}

// smallBlobs is a preference (not an assumption): models used for native
// replay should have payload lengths the native harness can allocate.
func (r *Run) smallBlobs() *sym.Term {
	c := r.in.ctx
	parts := []*sym.Term{}
	for _, l := range r.blobLens {
		parts = append(parts, c.ULe(l, c.Const(4096, 64)))
	}
	return c.And(parts...)
}

func (r *Run) solverUnknown(what string) {
	msg := what
	if r.sp.ErrMsg != "" {
		msg += ": " + r.sp.ErrMsg
	}
	panic(&runAbort{kind: "solver", msg: msg})
}

// ---- decisions ----

func (r *Run) replaying() bool { return r.pos < len(r.prefix) }

func (r *Run) record(d Decision) {
	r.taken = append(r.taken, d)
	r.pos++
	if r.pos >= r.keepLevels {
		r.sp.Send("(push 1)")
		r.sess.decs = append(r.sess.decs, d)
		r.sess.asserts = append(r.sess.asserts, nil)
	}
}

func (r *Run) fork(alt Decision) {
	p := make([]Decision, len(r.taken)+1)
	copy(p, r.taken)
	p[len(r.taken)] = alt
	r.ex.push(r.wid, p)
}

// Branch decides a boolean condition, forking if both sides are feasible.
func (r *Run) Branch(c *sym.Term, site ssa.Instruction) bool {
	if c.IsConst() {
		return c.Val == 1
	}
	ctx := r.in.ctx
	if r.replaying() {
		d := r.prefix[r.pos]
		if d.Kind != 'b' {
			panic(fmt.Sprintf("replay divergence at %d: want branch, prefix has %c (%s) at %s", r.pos, d.Kind, decStr(r.prefix), r.in.siteStr(site)))
		}
		r.record(d)
		if d.Val == 1 {
			r.addPC(c)
			return true
		}
		r.addPC(ctx.Not(c))
		return false
	}
	// a condition that is literally one of the path-condition clauses (or the
	// negation of one) needs no solver call
	if r.pcSet[c.ID] {
		r.record(Decision{'b', 1})
		return true
	}
	if nc := ctx.Not(c); r.pcSet[nc.ID] {
		r.record(Decision{'b', 0})
		return false
	}
	r.purpose = "branch " + r.in.siteStr(site)
	rt := r.check(c)
	if rt == solver.Unknown {
		r.solverUnknown("branch feasibility unknown at " + r.in.siteStr(site))
	}
	if rt == solver.Unsat {
		// only the false side is feasible (pc itself is satisfiable)
		r.record(Decision{'b', 0})
		r.addPC(ctx.Not(c))
		return false
	}
	rf := r.check(ctx.Not(c))
	if rf == solver.Unknown {
		r.solverUnknown("branch feasibility unknown at " + r.in.siteStr(site))
	}
	if rf == solver.Sat {
		r.fork(Decision{'b', 0})
	}
	r.record(Decision{'b', 1})
	r.addPC(c)
	return true
}

// Choose forks into n alternatives without consulting the solver.
func (r *Run) Choose(n int) int {
	if n <= 1 {
		return 0
	}
	if r.replaying() {
		d := r.prefix[r.pos]
		if d.Kind != 'c' {
			panic(fmt.Sprintf("replay divergence at %d: want choose, prefix has %c", r.pos, d.Kind))
		}
		r.record(d)
		return int(d.Val)
	}
	for i := n - 1; i >= 1; i-- {
		r.fork(Decision{'c', uint64(i)})
	}
	r.record(Decision{'c', 0})
	return 0
}

const maxConcretize = 64

// Concretize enumerates the feasible values of t and forks over them.
func (r *Run) Concretize(t *sym.Term, site ssa.Instruction) uint64 {
	if t.IsConst() {
		return t.Val
	}
	ctx := r.in.ctx
	if r.replaying() {
		d := r.prefix[r.pos]
		if d.Kind != 'v' {
			panic(fmt.Sprintf("replay divergence at %d: want value, prefix has %c", r.pos, d.Kind))
		}
		r.record(d)
		r.addPC(ctx.Eq(t, ctx.Const(d.Val, t.W)))
		return d.Val
	}
	tn := r.name(t)
	var vals []uint64
	r.sp.Send("(push 1)")
	for {
		res := r.sp.CheckSat()
		if res == solver.Unknown {
			r.sp.Send("(pop 1)")
			if r.sp.ErrMsg != "" {
				r.solverUnknown("value enumeration unknown at " + r.in.siteStr(site))
			}
			vals = r.freshEnumerate(t, site)
			goto enumerated
		}
		if res == solver.Unsat {
			break
		}
		m, err := r.sp.GetValues([]string{tn})
		if err != nil {
			r.sp.Send("(pop 1)")
			panic(&runAbort{kind: "solver", msg: err.Error()})
		}
		v := m[tn]
		vals = append(vals, v)
		if len(vals) > maxConcretize {
			r.sp.Send("(pop 1)")
			panic(&runAbort{kind: "unsupported", msg: fmt.Sprintf("more than %d feasible concrete values at %s", maxConcretize, r.in.siteStr(site))})
		}
		r.sp.Send(fmt.Sprintf("(assert (not (= %s (_ bv%d %d))))", tn, v, t.W))
	}
	r.sp.Send("(pop 1)")
enumerated:
	if len(vals) == 0 {
		panic(&runAbort{kind: "assume", msg: "infeasible at concretize"})
	}
	sort.Slice(vals, func(i, j int) bool { return vals[i] < vals[j] })
	for i := len(vals) - 1; i >= 1; i-- {
		r.fork(Decision{'v', vals[i]})
	}
	r.record(Decision{'v', vals[0]})
	r.addPC(ctx.Eq(t, ctx.Const(vals[0], t.W)))
	return vals[0]
}

// freshEnumerate enumerates the feasible values of t in a fresh solver process.
func (r *Run) freshEnumerate(t *sym.Term, site ssa.Instruction) []uint64 {
	var vals []uint64
	c := r.in.ctx
	block := c.T
	for {
		m, res := r.freshQuery(block, true)
		if res == solver.Unknown {
			r.solverUnknown("value enumeration unknown at " + r.in.siteStr(site))
		}
		if res == solver.Unsat {
			return vals
		}
		v := sym.Eval(t, m, map[int]uint64{})
		vals = append(vals, v)
		if len(vals) > maxConcretize {
			panic(&runAbort{kind: "unsupported", msg: fmt.Sprintf("more than %d feasible concrete values at %s", maxConcretize, r.in.siteStr(site))})
		}
		block = c.And(block, c.Not(c.Eq(t, c.Const(v, t.W))))
	}
}

// Assume adds c to the path condition; an infeasible assumption ends the run.
func (r *Run) Assume(c *sym.Term) {
	if c.IsTrue() {
		return
	}
	r.flushAsserts()
	if c.IsFalse() {
		panic(&runAbort{kind: "assume", msg: "assume(false)"})
	}
	if !r.replaying() {
		r.purpose = "assume"
		res := r.check(c)
		if res == solver.Unknown {
			r.solverUnknown("assume feasibility unknown")
		}
		if res == solver.Unsat {
			panic(&runAbort{kind: "assume", msg: "infeasible assumption"})
		}
	}
	r.addPC(c)
}

type pendingAssert struct {
	c     *sym.Term
	label string
	site  string
}

// Assert registers an obligation. Obligations are discharged in batches
// (flushAsserts): before the path condition is strengthened by an assumption
// and at the end of the run, whatever its status. Deferring is sound because
// the explored paths partition the states that reach the assertion: a model
// of pc ∧ ¬c follows one of them to a flush point.
func (r *Run) Assert(c *sym.Term, label string, site ssa.Instruction) {
	if !r.ex.Opt.labelSelected(label) {
		// label not selected by this check: treated as not asserted
		return
	}
	ss := r.in.siteStr(site)
	if c.IsTrue() || r.pcSet[c.ID] {
		// folded to true, or syntactically one of the path-condition clauses
		r.asserts = append(r.asserts, AssertRec{Label: label, Site: ss, Verdict: "trivially-true"})
		return
	}
	r.pending = append(r.pending, pendingAssert{c: c, label: label, site: ss})
}

// flushAsserts discharges the pending obligations: their conjunction first
// (one query when everything holds), one by one otherwise.
func (r *Run) flushAsserts() {
	if len(r.pending) == 0 {
		return
	}
	pend := r.pending
	r.pending = nil
	group := r.ex.Opt.AssertGroup
	if group <= 0 {
		group = 1
	}
	for len(pend) > 0 {
		n := min(group, len(pend))
		r.flushGroup(pend[:n])
		pend = pend[n:]
	}
}

// flushGroup discharges a small group of obligations: their conjunction first
// (one query when everything holds), one by one otherwise.
func (r *Run) flushGroup(pend []pendingAssert) {
	c := r.in.ctx
	conds := make([]*sym.Term, len(pend))
	for i, p := range pend {
		conds[i] = p.c
	}
	conj := c.And(conds...)
	all := func(v string) {
		for _, p := range pend {
			r.asserts = append(r.asserts, AssertRec{Label: p.label, Site: p.site, Verdict: v})
		}
	}
	if r.replaying() {
		d := r.prefix[r.pos]
		if d.Kind != 'e' {
			panic(fmt.Sprintf("replay divergence at %d: want assert batch, prefix has %c (%s)", r.pos, d.Kind, decStr(r.prefix)))
		}
		r.record(d)
		if d.Val == 0 {
			all("replayed")
			return
		}
	} else {
		r.purpose = "assert:" + pend[0].label
		if !conj.IsFalse() && r.check(c.Not(conj)) == solver.Unsat {
			r.record(Decision{'e', 0})
			all("proved")
			return
		}
		r.record(Decision{'e', 1})
	}
	for _, p := range pend {
		r.assertNow(p.c, p.label, p.site)
	}
}

func (r *Run) assertNow(c *sym.Term, label string, ss string) {
	r.purpose = "assert " + label
	rec := AssertRec{Label: label, Site: ss}
	switch {
	case c.IsTrue():
		rec.Verdict = "trivially-true"
	case r.replaying():
		// this site was already decided by the parent run
		d := r.prefix[r.pos]
		if d.Kind != 'a' {
			panic(fmt.Sprintf("replay divergence at %d: want assert, prefix has %c", r.pos, d.Kind))
		}
		r.record(d)
		rec.Verdict = "replayed"
		if d.Val == 1 {
			r.addPC(c)
		}
	default:
		m, res := r.modelFor(r.in.ctx.Not(c))
		if res == solver.Sat && len(r.blobLens) > 0 {
			if m2, res2 := r.modelFor(r.in.ctx.And(r.in.ctx.Not(c), r.smallBlobs())); res2 == solver.Sat {
				m = m2
			}
		}
		switch res {
		case solver.Unsat:
			rec.Verdict = "proved"
			r.record(Decision{'a', 0})
		case solver.Unknown:
			rec.Verdict = "unknown"
			r.asserts = append(r.asserts, rec)
			r.solverUnknown("assertion " + label + " undecided")
		case solver.Sat:
			if r.ex.Opt.Verbose {
				fmt.Fprintf(os.Stderr, "violated %s at %s\n", label, ss)
			}
			rec.Verdict = "violated"
			rec.Model = m
			r.viol = append(r.viol, Violation{Harness: r.ex.Name, Label: label, Site: rec.Site, Prefix: append([]Decision(nil), r.taken...), Inputs: r.inputsWithModel(m), Model: m, Kind: "assert"})
			// continue under the assumption that the assertion holds, if possible
			if c.IsFalse() || r.check(c) != solver.Sat {
				r.asserts = append(r.asserts, rec)
				panic(&runAbort{kind: "assume", msg: "after violated assertion"})
			}
			r.record(Decision{'a', 1})
			r.addPC(c)
		}
	}
	r.asserts = append(r.asserts, rec)
}

// AssertEach registers a list of named clauses label@name.
func (r *Run) AssertEach(label string, conds []*sym.Term, names []string, site ssa.Instruction) {
	for i, cond := range conds {
		r.Assert(cond, label+"@"+names[i], site)
	}
}

func (r *Run) inputsWithModel(m map[string]uint64) []InputRec {
	out := make([]InputRec, len(r.inputs))
	copy(out, r.inputs)
	memo := map[int]uint64{}
	for i := range out {
		if out[i].Kind == "choose" {
			continue
		}
		out[i].Val = sym.Eval(r.inTerms[i], m, memo)
	}
	return out
}

// RewindInputs makes subsequent vp* input calls re-issue the inputs created so
// far, in order (used to build the same symbolic state twice).
func (r *Run) RewindInputs() {
	r.inCursor = 0
	r.rndCursor = 0
}

// NewInput creates a fresh symbolic input (or re-issues one after a rewind).
func (r *Run) NewInput(kind string, w int) *sym.Term {
	if r.inCursor < len(r.inputs) {
		rec := r.inputs[r.inCursor]
		if rec.Kind != kind {
			panic(&runAbort{kind: "unsupported", msg: "input sequence diverged after vpRewindInputs: " + rec.Kind + " vs " + kind})
		}
		t := r.inTerms[r.inCursor]
		r.inCursor++
		return t
	}
	r.inCursor++
	name := fmt.Sprintf("in%d", r.nIn)
	r.nIn++
	t := r.in.ctx.Var(name, w)
	r.inputs = append(r.inputs, InputRec{Name: name, Kind: kind, W: w})
	r.inTerms = append(r.inTerms, t)
	r.define(t)
	return t
}

func (r *Run) NewInternal(w int) *sym.Term {
	if r.rndCursor < len(r.rndTerms) {
		t := r.rndTerms[r.rndCursor]
		r.rndCursor++
		return t
	}
	r.rndCursor++
	name := fmt.Sprintf("rnd%d", r.nRnd)
	r.nRnd++
	t := r.in.ctx.Var(name, w)
	r.rndTerms = append(r.rndTerms, t)
	r.define(t)
	return t
}

// ReplayChoose returns a recorded choice after a rewind.
func (r *Run) ReplayChoose() (int, bool) {
	if r.inCursor < len(r.inputs) {
		rec := r.inputs[r.inCursor]
		if rec.Kind != "choose" {
			panic(&runAbort{kind: "unsupported", msg: "input sequence diverged after vpRewindInputs: " + rec.Kind + " vs choose"})
		}
		r.inCursor++
		return int(rec.Val), true
	}
	return 0, false
}

func (r *Run) noteChoose(n, v int) {
	r.inCursor++
	r.inputs = append(r.inputs, InputRec{Name: fmt.Sprintf("choose/%d", n), Kind: "choose", Val: uint64(v)})
	r.inTerms = append(r.inTerms, nil)
}

func (r *Run) applyOrderPolicy(instr *ssa.Range, it *mapIter) {
	r.ex.mu.Lock()
	r.ex.MapRangeSites[r.in.siteStr(instr)] = true
	r.ex.mu.Unlock()
	switch r.orderPolicy {
	case 1:
		for i, j := 0, len(it.keys)-1; i < j; i, j = i+1, j-1 {
			it.keys[i], it.keys[j] = it.keys[j], it.keys[i]
		}
	case 2:
		if len(it.keys) > 1 {
			it.keys = append(it.keys[1:], it.keys[0])
		}
	case 3: // rotate by two
		if n := len(it.keys); n > 2 {
			it.keys = append(it.keys[2:], it.keys[0], it.keys[1])
		}
	case 4: // swap adjacent pairs
		for i := 0; i+1 < len(it.keys); i += 2 {
			it.keys[i], it.keys[i+1] = it.keys[i+1], it.keys[i]
		}
	case 5: // first key stays, the rest reversed
		for i, j := 1, len(it.keys)-1; i < j; i, j = i+1, j-1 {
			it.keys[i], it.keys[j] = it.keys[j], it.keys[i]
		}
	}
}

func (ex *Explorer) wantsModel(r *Run) bool {
	ex.mu.Lock()
	defer ex.mu.Unlock()
	if r.status != "return" && r.status != "panic" && r.status != "nondet" {
		return false
	}
	if r.status != "return" {
		return true
	}
	n := ex.StatusCount["return"] + ex.StatusCount["panic"] + 1
	if n <= 64 || (ex.Opt.SampleEvery > 0 && n%ex.Opt.SampleEvery == 0) {
		return true
	}
	for _, a := range r.asserts {
		if a.Verdict == "replayed" {
			continue
		}
		st := ex.Sites[a.Label+" @ "+a.Site]
		if st == nil || st.Witness == nil {
			return true
		}
	}
	return false
}

// record merges a finished run into the explorer's results.
func (ex *Explorer) record(r *Run) {
	ex.mu.Lock()
	defer ex.mu.Unlock()
	ex.Paths++
	ex.StatusCount[r.status]++
	ex.Transitions += len(r.taken)
	ex.Instrs += r.in.steps
	ex.Recovered += r.recovered
	for f, n := range r.funcs {
		ex.Funcs[f] += n
	}
	for f, n := range r.stubs {
		ex.Stubs[f] += n
	}
	for k, v := range r.bounds {
		ex.Bounds[k] = v
	}
	if r.nRnd > 0 {
		ex.HasInternalVars = true
	}
	switch r.status {
	case "unsupported", "budget", "unwind", "solver":
		ex.Inconcl = append(ex.Inconcl, fmt.Sprintf("%s: %s [prefix %s]", r.status, r.msg, decStr(r.taken)))
	case "nondet":
		ex.Violations = append(ex.Violations, Violation{Harness: ex.Name, Label: "nondet-source", Site: r.msg, Prefix: r.taken, Inputs: r.inputsFinal(), Model: r.finalModel, Msg: r.msg, Kind: "nondet"})
	case "panic":
		ex.PanicSites[r.site+" :: "+r.msg]++
		if ex.Opt.PanicIsViolation {
			ex.Violations = append(ex.Violations, Violation{Harness: ex.Name, Label: "no-panic", Site: r.site, Prefix: r.taken, Inputs: r.inputsFinal(), Model: r.finalModel, Msg: r.msg, Kind: "panic"})
		}
	}
	ex.Violations = append(ex.Violations, r.viol...)
	for _, a := range r.asserts {
		if a.Verdict == "replayed" {
			continue
		}
		key := a.Label + " @ " + a.Site
		st := ex.Sites[key]
		if st == nil {
			st = &SiteStat{Label: a.Label, Site: a.Site}
			ex.Sites[key] = st
		}
		st.Reached++
		switch a.Verdict {
		case "proved":
			st.Proved++
		case "trivially-true":
			st.Trivial++
		}
		if st.Witness == nil && r.finalModel != nil && (r.status == "return" || r.status == "panic") {
			st.Witness = r.sample(a.Label)
		}
	}
	// path samples for translator validation
	if r.finalModel != nil && (r.status == "return" || r.status == "panic") {
		n := ex.StatusCount["return"] + ex.StatusCount["panic"]
		every := ex.Opt.SampleEvery
		if n <= 64 || (every > 0 && n%every == 0) {
			ex.Samples = append(ex.Samples, *r.sample(""))
		}
	}
}

func (r *Run) inputsFinal() []InputRec {
	if r.finalModel == nil {
		return r.inputs
	}
	return r.inputsWithModel(r.finalModel)
}

func (r *Run) sample(label string) *PathSample {
	s := &PathSample{Harness: r.ex.Name, Prefix: decStr(r.taken), Inputs: r.inputsWithModel(r.finalModel), Status: r.status, Site: r.site, Label: label}
	memo := map[int]uint64{}
	for _, o := range r.in.obs {
		rec := ObsRec{Label: o.Label}
		for _, t := range o.Vals {
			rec.Vals = append(rec.Vals, sym.Eval(t, r.finalModel, memo))
		}
		s.Obs = append(s.Obs, rec)
	}
	return s
}
