package exec

import (
	"fmt"
	"os"
	"sort"
	"strings"
	"sync"
	"time"

	"golang.org/x/tools/go/ssa"

	"vsym/solver"
	"vsym/sym"
)

type Options struct {
	Workers     int
	MaxSteps    int // instructions per run
	Unwind      int // back-edge limit per frame/loop
	MaxPaths    int
	Deadline    time.Time
	SolverKind  string
	TimeoutMs   int
	OrderPolicy int // 0 ascending, 1 descending, 2 rotate-by-one
	MaxViol     int
	SampleEvery int
	LabelPrefixes []string // nil/empty = all labels checked
	PanicIsViolation bool
	Verbose     bool
	IncTimeoutMs int   // timeout of the incremental solver before falling back to a fresh one-shot process
	OnlyPrefix  string // development: run just this decision prefix
	SMTLog      string
}

// ParsePrefix parses the output of DecStr.
func ParsePrefix(s string) []Decision {
	var out []Decision
	for _, part := range strings.Split(s, ".") {
		if part == "" {
			continue
		}
		var v uint64
		fmt.Sscanf(part[1:], "%d", &v)
		out = append(out, Decision{Kind: part[0], Val: v})
	}
	return out
}

type Decision struct {
	Kind byte   // 'b' branch, 'c' choose, 'v' concretized value
	Val  uint64 // branch: 1 = true; choose: index; value: the value
}

func (o *Options) labelSelected(label string) bool {
	if len(o.LabelPrefixes) == 0 {
		return true
	}
	for _, p := range o.LabelPrefixes {
		if p == "*" || strings.HasPrefix(label, p) {
			return true
		}
	}
	return false
}

func DecStr(ds []Decision) string { return decStr(ds) }

func decStr(ds []Decision) string {
	var sb strings.Builder
	for _, d := range ds {
		fmt.Fprintf(&sb, "%c%d.", d.Kind, d.Val)
	}
	return sb.String()
}

// PathResult summarises one completed run.
type PathResult struct {
	Harness   string
	Prefix    []Decision
	Status    string // return | assume | panic | unsupported | budget | unwind | solver | nondet
	Msg       string
	Site      string
	Inputs    []InputRec // inputs in creation order (for replay)
	Model     map[string]uint64
	Obs       []ObsRec
	Asserts   []AssertRec
	Steps     int
	Decisions int
}

type InputRec struct {
	Name string
	Kind string // u64 | bool | choose | bloblen | blobnil
	W    int
	Val  uint64 // concrete for choose; model value otherwise (filled when a model exists)
}

type ObsRec struct {
	Label string
	Vals  []uint64
}

type AssertRec struct {
	Label    string
	Site     string
	Verdict  string // proved | trivially-true | violated | unknown
	Model    map[string]uint64
}

type Violation struct {
	Harness string
	Label   string
	Site    string
	Prefix  []Decision
	Inputs  []InputRec
	Model   map[string]uint64
	Msg     string
	Kind    string // assert | panic | nondet
}

type SiteStat struct {
	Label   string
	Site    string
	Reached int
	Proved  int
	Trivial int
	Witness *PathSample
}

type PathSample struct {
	Harness string
	Prefix  string
	Inputs  []InputRec
	Status  string
	Site    string
	Obs     []ObsRec
	Label   string
}

// Explorer explores all paths of one harness.
type Explorer struct {
	P       *Program
	Fn      *ssa.Function
	Name    string
	Opt     Options

	mu        sync.Mutex
	cond      *sync.Cond
	work      [][]Decision
	active    int
	stop      bool

	// results
	Paths       int
	StatusCount map[string]int
	Transitions int
	Sites       map[string]*SiteStat
	Violations  []Violation
	Inconcl     []string
	Samples     []PathSample
	Funcs       map[string]int // function -> calls
	Instrs      int
	Solver      solver.Stats
	PanicSites  map[string]int
	Bounds      map[string]string
	AssumeSeen  map[string]bool
	MapRangeSites map[string]bool
	Recovered   int
	Stubs       map[string]int
	HasInternalVars bool
	FreshQueries int
}

func NewExplorer(p *Program, name string, fn *ssa.Function, opt Options) *Explorer {
	ex := &Explorer{P: p, Fn: fn, Name: name, Opt: opt,
		StatusCount: map[string]int{}, Sites: map[string]*SiteStat{}, Funcs: map[string]int{},
		Stubs: map[string]int{}, PanicSites: map[string]int{}, Bounds: map[string]string{}, AssumeSeen: map[string]bool{}, MapRangeSites: map[string]bool{}}
	ex.cond = sync.NewCond(&ex.mu)
	return ex
}

func (ex *Explorer) Explore() {
	ex.work = [][]Decision{nil}
	if ex.Opt.OnlyPrefix != "" {
		ex.work = [][]Decision{ParsePrefix(ex.Opt.OnlyPrefix)}
		ex.Opt.Workers = 1
	}
	var wg sync.WaitGroup
	for i := 0; i < ex.Opt.Workers; i++ {
		wg.Add(1)
		go func(id int) {
			defer wg.Done()
			ex.worker(id)
		}(i)
	}
	wg.Wait()
	if len(ex.work) > 0 {
		ex.Inconcl = append(ex.Inconcl, fmt.Sprintf("budget exhausted with %d unexplored prefixes", len(ex.work)))
	}
}

func (ex *Explorer) take() ([]Decision, bool) {
	ex.mu.Lock()
	defer ex.mu.Unlock()
	for {
		if ex.stop {
			return nil, false
		}
		if n := len(ex.work); n > 0 {
			p := ex.work[n-1]
			ex.work = ex.work[:n-1]
			ex.active++
			return p, true
		}
		if ex.active == 0 {
			ex.cond.Broadcast()
			return nil, false
		}
		ex.cond.Wait()
	}
}

func (ex *Explorer) done() {
	ex.mu.Lock()
	ex.active--
	if ex.active == 0 && len(ex.work) == 0 {
		ex.cond.Broadcast()
	}
	ex.mu.Unlock()
}

func (ex *Explorer) push(p []Decision) {
	if ex.Opt.OnlyPrefix != "" {
		return
	}
	ex.mu.Lock()
	ex.work = append(ex.work, p)
	ex.cond.Signal()
	ex.mu.Unlock()
}

func (ex *Explorer) worker(id int) {
	inc := ex.Opt.IncTimeoutMs
	if inc == 0 {
		inc = 4000
	}
	sp, err := solver.Start(ex.Opt.SolverKind, inc)
	if err != nil {
		ex.mu.Lock()
		ex.Inconcl = append(ex.Inconcl, "cannot start solver: "+err.Error())
		ex.stop = true
		ex.cond.Broadcast()
		ex.mu.Unlock()
		return
	}
	if ex.Opt.SMTLog != "" && id == 0 {
		f, _ := os.Create(ex.Opt.SMTLog)
		sp.Log = f
	}
	defer func() {
		ex.mu.Lock()
		s := sp.Stats
		ex.Solver.Queries += s.Queries
		ex.Solver.Sat += s.Sat
		ex.Solver.Unsat += s.Unsat
		ex.Solver.Unknown += s.Unknown
		ex.Solver.Seconds += s.Seconds
		ex.Solver.Errors += s.Errors
		if s.MaxQuery > ex.Solver.MaxQuery {
			ex.Solver.MaxQuery = s.MaxQuery
		}
		ex.mu.Unlock()
		sp.Close()
	}()
	for {
		prefix, ok := ex.take()
		if !ok {
			return
		}
		r := newRun(ex, sp, prefix)
		r.execute()
		ex.record(r)
		ex.done()
		ex.mu.Lock()
		over := (ex.Opt.MaxPaths > 0 && ex.Paths >= ex.Opt.MaxPaths) || (!ex.Opt.Deadline.IsZero() && time.Now().After(ex.Opt.Deadline)) || len(ex.Violations) >= ex.Opt.MaxViol
		if over {
			ex.stop = true
			ex.cond.Broadcast()
		}
		ex.mu.Unlock()
	}
}

// Run is one path.
type Run struct {
	ex      *Explorer
	sp      *solver.Proc
	in      *Interp
	prefix  []Decision
	taken   []Decision
	pos     int
	pc      []*sym.Term
	defined map[int]bool
	inputs  []InputRec
	inTerms []*sym.Term
	nIn     int
	nRnd    int
	status  string
	msg     string
	site    string
	asserts []AssertRec
	funcs   map[string]int
	viol    []Violation
	finalModel map[string]uint64
	recovered int
	solverDead bool
	stubs     map[string]int
	bounds    map[string]string
	blobLens  []*sym.Term
}

func newRun(ex *Explorer, sp *solver.Proc, prefix []Decision) *Run {
	r := &Run{ex: ex, sp: sp, prefix: prefix, defined: map[int]bool{}, funcs: map[string]int{}, stubs: map[string]int{}, bounds: map[string]string{}}
	ctx := sym.NewCtx()
	r.in = &Interp{P: ex.P, ctx: ctx, run: r, globals: map[*ssa.Global]Ptr{}}
	return r
}

func (r *Run) noteFunction(fn *ssa.Function) { r.funcs[fn.String()]++ }
func (r *Run) noteRecovered(p *targetPanic) { r.recovered++ }

func (r *Run) execute() {
	r.sp.Send("(push 1)")
	defer func() {
		r.sp.Send("(pop 1)")
	}()
	defer func() {
		x := recover()
		switch x := x.(type) {
		case nil:
		case *targetPanic:
			r.status, r.msg, r.site = "panic", x.msg, x.site
		case *runAbort:
			r.status, r.msg = x.kind, x.msg
		default:
			panic(x)
		}
		if r.status != "assume" && r.status != "solver" && r.ex.wantsModel(r) {
			r.captureModel()
		}
	}()
	in := r.in
	// package initialisers
	in.initing = true
	for _, path := range []string{RepoModule + "/quorum", RepoModule + "/tracker", RepoModule + "/confchange", RepoModule} {
		if sp := r.ex.P.Pkgs[path]; sp != nil {
			if init := sp.Func("init"); init != nil {
				in.callSSA(nil, nil, init, nil, nil)
			}
		}
	}
	in.initing = false
	in.steps = 0
	in.callSSA(nil, nil, r.ex.Fn, nil, nil)
	r.status = "return"
}

// ---- solver plumbing ----

func (r *Run) define(t *sym.Term) {
	if t.Op == sym.OpConst || r.defined[t.ID] {
		return
	}
	for _, a := range t.Args {
		r.define(a)
	}
	r.defined[t.ID] = true
	r.sp.Send(t.Def())
}

func (r *Run) addPC(t *sym.Term) {
	if t.IsTrue() {
		return
	}
	r.pc = append(r.pc, t)
	r.define(t)
	r.sp.Send("(assert " + t.SMTName() + ")")
}

// check decides satisfiability of pc ∧ extra.
func (r *Run) check(extra *sym.Term) solver.Result {
	_, res := r.query(extra, false)
	return res
}

func (r *Run) modelFor(extra *sym.Term) (map[string]uint64, solver.Result) {
	return r.query(extra, true)
}

// query asks the incremental solver first (short timeout); if that is
// inconclusive the whole path condition is replayed into a fresh one-shot
// solver process with the full timeout.
func (r *Run) query(extra *sym.Term, wantModel bool) (map[string]uint64, solver.Result) {
	if extra.IsFalse() {
		return nil, solver.Unsat
	}
	r.define(extra)
	r.sp.Send("(push 1)")
	r.sp.Send("(assert " + extra.SMTName() + ")")
	res := r.sp.CheckSat()
	var m map[string]uint64
	if res == solver.Sat && wantModel {
		m = r.getModel(r.sp)
	}
	r.sp.Send("(pop 1)")
	if res != solver.Unknown {
		return m, res
	}
	return r.freshQuery(extra, wantModel)
}

func (r *Run) freshQuery(extra *sym.Term, wantModel bool) (map[string]uint64, solver.Result) {
	sp, err := solver.Start(r.ex.Opt.SolverKind, r.ex.Opt.TimeoutMs)
	if err != nil {
		return nil, solver.Unknown
	}
	defer func() {
		r.ex.mu.Lock()
		r.ex.Solver.Queries += sp.Stats.Queries
		r.ex.Solver.Sat += sp.Stats.Sat
		r.ex.Solver.Unsat += sp.Stats.Unsat
		r.ex.Solver.Unknown += sp.Stats.Unknown
		r.ex.Solver.Seconds += sp.Stats.Seconds
		r.ex.FreshQueries++
		if sp.Stats.MaxQuery > r.ex.Solver.MaxQuery {
			r.ex.Solver.MaxQuery = sp.Stats.MaxQuery
		}
		r.ex.mu.Unlock()
		sp.Close()
	}()
	// definitions in creation order (arguments precede users)
	ids := make([]int, 0, len(r.defined))
	for id := range r.defined {
		ids = append(ids, id)
	}
	sort.Ints(ids)
	for _, id := range ids {
		if d := r.in.ctx.TermByID(id).Def(); d != "" {
			sp.Send(d)
		}
	}
	for _, t := range r.pc {
		sp.Send("(assert " + t.SMTName() + ")")
	}
	sp.Send("(assert " + extra.SMTName() + ")")
	res := sp.CheckSat()
	var m map[string]uint64
	if res == solver.Sat && wantModel {
		m = r.getModel(sp)
	}
	if res == solver.Unknown && sp.ErrMsg != "" {
		r.sp.ErrMsg = sp.ErrMsg
	}
	return m, res
}

func (r *Run) getModel(sp *solver.Proc) map[string]uint64 {
	var names []string
	for _, v := range r.in.ctx.Vars {
		if r.defined[v.ID] {
			names = append(names, v.Name)
		}
	}
	if len(names) == 0 {
		return map[string]uint64{}
	}
	m, err := sp.GetValues(names)
	if err != nil {
		panic(&runAbort{kind: "solver", msg: "get-value failed: " + err.Error()})
	}
	return m
}

func (r *Run) captureModel() {
	defer func() {
		if x := recover(); x != nil {
			if _, ok := x.(*runAbort); !ok {
				panic(x)
			}
		}
	}()
	m, res := r.modelFor(r.smallBlobs())
	if res != solver.Sat {
		m, res = r.modelFor(r.in.ctx.T)
	}
	if res == solver.Sat {
		r.finalModel = m
	}
}

// smallBlobs is a preference (not an assumption): models used for native
// replay should have payload lengths the native harness can allocate.
func (r *Run) smallBlobs() *sym.Term {
	c := r.in.ctx
	parts := []*sym.Term{}
	for _, l := range r.blobLens {
		parts = append(parts, c.ULe(l, c.Const(4096, 64)))
	}
	return c.And(parts...)
}

func (r *Run) solverUnknown(what string) {
	msg := what
	if r.sp.ErrMsg != "" {
		msg += ": " + r.sp.ErrMsg
	}
	panic(&runAbort{kind: "solver", msg: msg})
}

// ---- decisions ----

func (r *Run) replaying() bool { return r.pos < len(r.prefix) }

func (r *Run) record(d Decision) {
	r.taken = append(r.taken, d)
	r.pos++
}

func (r *Run) fork(alt Decision) {
	p := make([]Decision, len(r.taken)+1)
	copy(p, r.taken)
	p[len(r.taken)] = alt
	r.ex.push(p)
}

// Branch decides a boolean condition, forking if both sides are feasible.
func (r *Run) Branch(c *sym.Term, site ssa.Instruction) bool {
	if c.IsConst() {
		return c.Val == 1
	}
	ctx := r.in.ctx
	if r.replaying() {
		d := r.prefix[r.pos]
		if d.Kind != 'b' {
			panic(fmt.Sprintf("replay divergence at %d: want branch, prefix has %c (%s) at %s", r.pos, d.Kind, decStr(r.prefix), r.in.siteStr(site)))
		}
		r.record(d)
		if d.Val == 1 {
			r.addPC(c)
			return true
		}
		r.addPC(ctx.Not(c))
		return false
	}
	rt := r.check(c)
	if rt == solver.Unknown {
		r.solverUnknown("branch feasibility unknown at " + r.in.siteStr(site))
	}
	if rt == solver.Unsat {
		// only the false side is feasible (pc itself is satisfiable)
		r.record(Decision{'b', 0})
		r.addPC(ctx.Not(c))
		return false
	}
	rf := r.check(ctx.Not(c))
	if rf == solver.Unknown {
		r.solverUnknown("branch feasibility unknown at " + r.in.siteStr(site))
	}
	if rf == solver.Sat {
		r.fork(Decision{'b', 0})
	}
	r.record(Decision{'b', 1})
	r.addPC(c)
	return true
}

// Choose forks into n alternatives without consulting the solver.
func (r *Run) Choose(n int) int {
	if n <= 1 {
		return 0
	}
	if r.replaying() {
		d := r.prefix[r.pos]
		if d.Kind != 'c' {
			panic(fmt.Sprintf("replay divergence at %d: want choose, prefix has %c", r.pos, d.Kind))
		}
		r.record(d)
		return int(d.Val)
	}
	for i := n - 1; i >= 1; i-- {
		r.fork(Decision{'c', uint64(i)})
	}
	r.record(Decision{'c', 0})
	return 0
}

const maxConcretize = 64

// Concretize enumerates the feasible values of t and forks over them.
func (r *Run) Concretize(t *sym.Term, site ssa.Instruction) uint64 {
	if t.IsConst() {
		return t.Val
	}
	ctx := r.in.ctx
	if r.replaying() {
		d := r.prefix[r.pos]
		if d.Kind != 'v' {
			panic(fmt.Sprintf("replay divergence at %d: want value, prefix has %c", r.pos, d.Kind))
		}
		r.record(d)
		r.addPC(ctx.Eq(t, ctx.Const(d.Val, t.W)))
		return d.Val
	}
	r.define(t)
	var vals []uint64
	r.sp.Send("(push 1)")
	for {
		res := r.sp.CheckSat()
		if res == solver.Unknown {
			r.sp.Send("(pop 1)")
			r.solverUnknown("value enumeration unknown at " + r.in.siteStr(site))
		}
		if res == solver.Unsat {
			break
		}
		m, err := r.sp.GetValues([]string{t.SMTName()})
		if err != nil {
			r.sp.Send("(pop 1)")
			panic(&runAbort{kind: "solver", msg: err.Error()})
		}
		v := m[t.SMTName()]
		vals = append(vals, v)
		if len(vals) > maxConcretize {
			r.sp.Send("(pop 1)")
			panic(&runAbort{kind: "unsupported", msg: fmt.Sprintf("more than %d feasible concrete values at %s", maxConcretize, r.in.siteStr(site))})
		}
		r.sp.Send(fmt.Sprintf("(assert (not (= %s (_ bv%d %d))))", t.SMTName(), v, t.W))
	}
	r.sp.Send("(pop 1)")
	if len(vals) == 0 {
		panic(&runAbort{kind: "assume", msg: "infeasible at concretize"})
	}
	sort.Slice(vals, func(i, j int) bool { return vals[i] < vals[j] })
	for i := len(vals) - 1; i >= 1; i-- {
		r.fork(Decision{'v', vals[i]})
	}
	r.record(Decision{'v', vals[0]})
	r.addPC(ctx.Eq(t, ctx.Const(vals[0], t.W)))
	return vals[0]
}

// Assume adds c to the path condition; an infeasible assumption ends the run.
func (r *Run) Assume(c *sym.Term) {
	if c.IsTrue() {
		return
	}
	if c.IsFalse() {
		panic(&runAbort{kind: "assume", msg: "assume(false)"})
	}
	if !r.replaying() {
		res := r.check(c)
		if res == solver.Unknown {
			r.solverUnknown("assume feasibility unknown")
		}
		if res == solver.Unsat {
			panic(&runAbort{kind: "assume", msg: "infeasible assumption"})
		}
	}
	r.addPC(c)
}

// Assert discharges an obligation.
func (r *Run) Assert(c *sym.Term, label string, site ssa.Instruction) {
	if !r.ex.Opt.labelSelected(label) {
		// label not selected by this check: treated as not asserted
		return
	}
	rec := AssertRec{Label: label, Site: r.in.siteStr(site)}
	switch {
	case c.IsTrue():
		rec.Verdict = "trivially-true"
	case r.replaying():
		// this site was already decided by the parent run
		d := r.prefix[r.pos]
		if d.Kind != 'a' {
			panic(fmt.Sprintf("replay divergence at %d: want assert, prefix has %c", r.pos, d.Kind))
		}
		r.record(d)
		rec.Verdict = "replayed"
		if d.Val == 1 {
			r.addPC(c)
		}
	default:
		m, res := r.modelFor(r.in.ctx.Not(c))
		if res == solver.Sat && len(r.blobLens) > 0 {
			if m2, res2 := r.modelFor(r.in.ctx.And(r.in.ctx.Not(c), r.smallBlobs())); res2 == solver.Sat {
				m = m2
			}
		}
		switch res {
		case solver.Unsat:
			rec.Verdict = "proved"
			r.record(Decision{'a', 0})
		case solver.Unknown:
			rec.Verdict = "unknown"
			r.asserts = append(r.asserts, rec)
			r.solverUnknown("assertion " + label + " undecided")
		case solver.Sat:
			rec.Verdict = "violated"
			rec.Model = m
			r.viol = append(r.viol, Violation{Harness: r.ex.Name, Label: label, Site: rec.Site, Prefix: append([]Decision(nil), r.taken...), Inputs: r.inputsWithModel(m), Model: m, Kind: "assert"})
			// continue under the assumption that the assertion holds, if possible
			if c.IsFalse() || r.check(c) != solver.Sat {
				r.asserts = append(r.asserts, rec)
				panic(&runAbort{kind: "assume", msg: "after violated assertion"})
			}
			r.record(Decision{'a', 1})
			r.addPC(c)
		}
	}
	r.asserts = append(r.asserts, rec)
}

// AssertEach discharges a conjunction of named clauses: the conjunction is
// tried first; only if it is not proved are the clauses decided one by one
// (so that a counterexample names the clause that fails).
func (r *Run) AssertEach(label string, conds []*sym.Term, names []string, site ssa.Instruction) {
	if !r.ex.Opt.labelSelected(label) {
		return
	}
	c := r.in.ctx
	conj := c.And(conds...)
	if conj.IsTrue() {
		r.asserts = append(r.asserts, AssertRec{Label: label, Site: r.in.siteStr(site), Verdict: "trivially-true"})
		return
	}
	if r.replaying() {
		d := r.prefix[r.pos]
		if d.Kind != 'e' {
			panic(fmt.Sprintf("replay divergence at %d: want assert-each, prefix has %c", r.pos, d.Kind))
		}
		r.record(d)
		if d.Val == 0 {
			r.asserts = append(r.asserts, AssertRec{Label: label, Site: r.in.siteStr(site), Verdict: "replayed"})
			return
		}
	} else {
		if !conj.IsFalse() && r.check(c.Not(conj)) == solver.Unsat {
			r.record(Decision{'e', 0})
			r.asserts = append(r.asserts, AssertRec{Label: label, Site: r.in.siteStr(site), Verdict: "proved"})
			return
		}
		r.record(Decision{'e', 1})
	}
	for i, cond := range conds {
		if cond.IsTrue() {
			continue
		}
		r.Assert(cond, label+"@"+names[i], site)
	}
}

func (r *Run) inputsWithModel(m map[string]uint64) []InputRec {
	out := make([]InputRec, len(r.inputs))
	copy(out, r.inputs)
	memo := map[int]uint64{}
	for i := range out {
		if out[i].Kind == "choose" {
			continue
		}
		out[i].Val = sym.Eval(r.inTerms[i], m, memo)
	}
	return out
}

// NewInput creates a fresh symbolic input.
func (r *Run) NewInput(kind string, w int) *sym.Term {
	name := fmt.Sprintf("in%d", r.nIn)
	r.nIn++
	t := r.in.ctx.Var(name, w)
	r.inputs = append(r.inputs, InputRec{Name: name, Kind: kind, W: w})
	r.inTerms = append(r.inTerms, t)
	r.define(t)
	return t
}

func (r *Run) NewInternal(w int) *sym.Term {
	name := fmt.Sprintf("rnd%d", r.nRnd)
	r.nRnd++
	t := r.in.ctx.Var(name, w)
	r.define(t)
	return t
}

func (r *Run) noteChoose(n, v int) {
	r.inputs = append(r.inputs, InputRec{Name: fmt.Sprintf("choose/%d", n), Kind: "choose", Val: uint64(v)})
	r.inTerms = append(r.inTerms, nil)
}

func (r *Run) applyOrderPolicy(instr *ssa.Range, it *mapIter) {
	r.ex.mu.Lock()
	r.ex.MapRangeSites[r.in.siteStr(instr)] = true
	r.ex.mu.Unlock()
	switch r.ex.Opt.OrderPolicy {
	case 1:
		for i, j := 0, len(it.keys)-1; i < j; i, j = i+1, j-1 {
			it.keys[i], it.keys[j] = it.keys[j], it.keys[i]
		}
	case 2:
		if len(it.keys) > 1 {
			it.keys = append(it.keys[1:], it.keys[0])
		}
	}
}

func (ex *Explorer) wantsModel(r *Run) bool {
	ex.mu.Lock()
	defer ex.mu.Unlock()
	if r.status != "return" && r.status != "panic" && r.status != "nondet" {
		return false
	}
	if r.status != "return" {
		return true
	}
	n := ex.StatusCount["return"] + ex.StatusCount["panic"] + 1
	if n <= 64 || (ex.Opt.SampleEvery > 0 && n%ex.Opt.SampleEvery == 0) {
		return true
	}
	for _, a := range r.asserts {
		if a.Verdict == "replayed" {
			continue
		}
		st := ex.Sites[a.Label+" @ "+a.Site]
		if st == nil || st.Witness == nil {
			return true
		}
	}
	return false
}

// record merges a finished run into the explorer's results.
func (ex *Explorer) record(r *Run) {
	ex.mu.Lock()
	defer ex.mu.Unlock()
	ex.Paths++
	ex.StatusCount[r.status]++
	ex.Transitions += len(r.taken)
	ex.Instrs += r.in.steps
	ex.Recovered += r.recovered
	for f, n := range r.funcs {
		ex.Funcs[f] += n
	}
	for f, n := range r.stubs {
		ex.Stubs[f] += n
	}
	for k, v := range r.bounds {
		ex.Bounds[k] = v
	}
	if r.nRnd > 0 {
		ex.HasInternalVars = true
	}
	switch r.status {
	case "unsupported", "budget", "unwind", "solver":
		ex.Inconcl = append(ex.Inconcl, fmt.Sprintf("%s: %s [prefix %s]", r.status, r.msg, decStr(r.taken)))
	case "nondet":
		ex.Violations = append(ex.Violations, Violation{Harness: ex.Name, Label: "nondet-source", Site: r.msg, Prefix: r.taken, Inputs: r.inputsFinal(), Model: r.finalModel, Msg: r.msg, Kind: "nondet"})
	case "panic":
		ex.PanicSites[r.site+" :: "+r.msg]++
		if ex.Opt.PanicIsViolation {
			ex.Violations = append(ex.Violations, Violation{Harness: ex.Name, Label: "no-panic", Site: r.site, Prefix: r.taken, Inputs: r.inputsFinal(), Model: r.finalModel, Msg: r.msg, Kind: "panic"})
		}
	}
	ex.Violations = append(ex.Violations, r.viol...)
	for _, a := range r.asserts {
		if a.Verdict == "replayed" {
			continue
		}
		key := a.Label + " @ " + a.Site
		st := ex.Sites[key]
		if st == nil {
			st = &SiteStat{Label: a.Label, Site: a.Site}
			ex.Sites[key] = st
		}
		st.Reached++
		switch a.Verdict {
		case "proved":
			st.Proved++
		case "trivially-true":
			st.Trivial++
		}
		if st.Witness == nil && r.finalModel != nil && (r.status == "return" || r.status == "panic") {
			st.Witness = r.sample(a.Label)
		}
	}
	// path samples for translator validation
	if r.finalModel != nil && (r.status == "return" || r.status == "panic") {
		n := ex.StatusCount["return"] + ex.StatusCount["panic"]
		every := ex.Opt.SampleEvery
		if n <= 64 || (every > 0 && n%every == 0) {
			ex.Samples = append(ex.Samples, *r.sample(""))
		}
	}
}

func (r *Run) inputsFinal() []InputRec {
	if r.finalModel == nil {
		return r.inputs
	}
	return r.inputsWithModel(r.finalModel)
}

func (r *Run) sample(label string) *PathSample {
	s := &PathSample{Harness: r.ex.Name, Prefix: decStr(r.taken), Inputs: r.inputsWithModel(r.finalModel), Status: r.status, Site: r.site, Label: label}
	memo := map[int]uint64{}
	for _, o := range r.in.obs {
		rec := ObsRec{Label: o.Label}
		for _, t := range o.Vals {
			rec.Vals = append(rec.Vals, sym.Eval(t, r.finalModel, memo))
		}
		s.Obs = append(s.Obs, rec)
	}
	return s
}
