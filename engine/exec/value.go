package exec

import (
	"fmt"
	"go/types"

	"golang.org/x/tools/go/ssa"

	"vsym/sym"
)

// Value is one of:
//
//	*sym.Term          bool and every integer type
//	string             concrete strings
//	*Value (Ptr)       pointers (nil = typed nil pointer)
//	Struct, Array      aggregates
//	Slice              slices (concrete len/cap, shared backing array)
//	*Blob              opaque []byte with symbolic length
//	*Map               maps
//	Iface              interfaces
//	*ssa.Function, *ssa.Builtin, *Closure   function values
//	Tuple              multi-value results
//	Opaque             result of an un-modelled external call
//	float64            concrete floats (rare)
type Value interface{}

type Ptr = *Value

type Struct []Value
type Array []Value
type Tuple []Value

// Slice has Go slice semantics: a window into a shared backing store.
type Slice struct {
	Arr []Value // the window: len(Arr) = len, cap(Arr) = cap
	Nil bool
}

type Blob struct {
	ID       int
	Len      *sym.Term // 64-bit
	IsNil    *sym.Term // Bool; IsNil implies Len == 0
	Attached Value // a decoded protobuf message value (Struct) or nil
	AttachT  types.Type
}

type MapEntry struct {
	K, V Value
}

type Map struct {
	Entries []MapEntry
}

type Iface struct {
	T types.Type // nil => nil interface
	V Value
}

type Closure struct {
	Fn  *ssa.Function
	Env []Value
}

type Opaque struct{ Desc string }

// BoundMethod is produced by intrinsics that need to return a callable.
type nilFunc struct{}

func isNilPtr(v Value) bool {
	p, ok := v.(Ptr)
	return ok && p == nil
}

func (in *Interp) zero(t types.Type) Value {
	switch t := t.(type) {
	case *types.Basic:
		switch {
		case t.Kind() == types.UntypedNil:
			panic("untyped nil has no zero value")
		case t.Info()&types.IsBoolean != 0:
			return in.ctx.F
		case t.Info()&types.IsInteger != 0:
			return in.ctx.Const(0, in.width(t))
		case t.Info()&types.IsString != 0:
			return ""
		case t.Info()&types.IsFloat != 0:
			return float64(0)
		case t.Kind() == types.UnsafePointer:
			return Ptr(nil)
		}
		panic(fmt.Sprintf("zero: unsupported basic type %v", t))
	case *types.Pointer:
		return Ptr(nil)
	case *types.Array:
		a := make(Array, t.Len())
		for i := range a {
			a[i] = in.zero(t.Elem())
		}
		return a
	case *types.Named:
		return in.zero(t.Underlying())
	case *types.Alias:
		return in.zero(types.Unalias(t))
	case *types.Interface:
		return Iface{}
	case *types.Slice:
		return Slice{Nil: true}
	case *types.Struct:
		s := make(Struct, t.NumFields())
		for i := range s {
			s[i] = in.zero(t.Field(i).Type())
		}
		return s
	case *types.Tuple:
		if t.Len() == 1 {
			return in.zero(t.At(0).Type())
		}
		s := make(Tuple, t.Len())
		for i := range s {
			s[i] = in.zero(t.At(i).Type())
		}
		return s
	case *types.Chan:
		return Opaque{"chan"}
	case *types.Map:
		return (*Map)(nil)
	case *types.Signature:
		return nilFunc{}
	case *types.TypeParam:
		panic("zero of type parameter")
	}
	panic(fmt.Sprintf("zero: unexpected type %T %v", t, t))
}

// width returns the bit width of an integer/bool type (0 for bool).
func (in *Interp) width(t types.Type) int {
	b, ok := t.Underlying().(*types.Basic)
	if !ok {
		panic(fmt.Sprintf("width of non-basic type %v", t))
	}
	switch b.Kind() {
	case types.Bool, types.UntypedBool:
		return 0
	case types.Int8, types.Uint8:
		return 8
	case types.Int16, types.Uint16:
		return 16
	case types.Int32, types.Uint32, types.UntypedRune:
		return 32
	case types.Int, types.Uint, types.Int64, types.Uint64, types.Uintptr, types.UntypedInt:
		return 64
	}
	panic(fmt.Sprintf("width of type %v", t))
}

func isSigned(t types.Type) bool {
	b, ok := t.Underlying().(*types.Basic)
	if !ok {
		return false
	}
	return b.Info()&types.IsInteger != 0 && b.Info()&types.IsUnsigned == 0
}

func isInteger(t types.Type) bool {
	b, ok := t.Underlying().(*types.Basic)
	return ok && b.Info()&types.IsInteger != 0
}

func isBoolean(t types.Type) bool {
	b, ok := t.Underlying().(*types.Basic)
	return ok && b.Info()&types.IsBoolean != 0
}

func isString(t types.Type) bool {
	b, ok := t.Underlying().(*types.Basic)
	return ok && b.Info()&types.IsString != 0
}

// copyVal makes a copy of aggregates (value semantics).
func copyVal(v Value) Value {
	switch v := v.(type) {
	case Struct:
		a := make(Struct, len(v))
		for i := range v {
			a[i] = copyVal(v[i])
		}
		return a
	case Array:
		a := make(Array, len(v))
		for i := range v {
			a[i] = copyVal(v[i])
		}
		return a
	case Tuple:
		// tuples are immutable
		return v
	}
	return v
}

// store writes v through addr, preserving the identity of nested cells.
func store(addr Ptr, v Value) {
	switch rhs := v.(type) {
	case Struct:
		lhs, ok := (*addr).(Struct)
		if !ok || len(lhs) != len(rhs) {
			*addr = copyVal(rhs)
			return
		}
		for i := range lhs {
			store(&lhs[i], rhs[i])
		}
	case Array:
		lhs, ok := (*addr).(Array)
		if !ok || len(lhs) != len(rhs) {
			*addr = copyVal(rhs)
			return
		}
		for i := range lhs {
			store(&lhs[i], rhs[i])
		}
	default:
		*addr = v
	}
}

func load(addr Ptr) Value { return copyVal(*addr) }

func typeName(t types.Type) string {
	return types.TypeString(t, nil)
}

func valStr(v Value) string {
	switch v := v.(type) {
	case *sym.Term:
		if v.IsConst() {
			if v.W == 0 {
				return fmt.Sprint(v.Val == 1)
			}
			return fmt.Sprint(v.Val)
		}
		return "sym:" + v.SMTName()
	case string:
		return fmt.Sprintf("%q", v)
	case Ptr:
		if v == nil {
			return "nil"
		}
		return "&" + valStr(*v)
	case Struct:
		s := "{"
		for i, x := range v {
			if i > 0 {
				s += " "
			}
			s += valStr(x)
		}
		return s + "}"
	case Slice:
		if v.Nil {
			return "[]nil"
		}
		return fmt.Sprintf("[len %d]", len(v.Arr))
	case Iface:
		if v.T == nil {
			return "iface(nil)"
		}
		return "iface(" + typeName(v.T) + ")"
	}
	return fmt.Sprintf("%T", v)
}
