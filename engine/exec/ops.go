package exec

import (
	"fmt"
	"go/token"
	"go/types"
	"sort"

	"golang.org/x/tools/go/ssa"

	"vsym/sym"
)

func (in *Interp) unop(instr *ssa.UnOp, x Value) Value {
	c := in.ctx
	switch instr.Op {
	case token.MUL: // load
		p, ok := x.(Ptr)
		if !ok {
			panic(fmt.Sprintf("load through %T", x))
		}
		if p == nil {
			in.goPanic(instr, "nil pointer dereference (load)")
		}
		return load(p)
	case token.NOT:
		return c.Not(x.(*sym.Term))
	case token.SUB:
		switch x := x.(type) {
		case *sym.Term:
			return c.Neg(x)
		case float64:
			return -x
		}
	case token.XOR:
		return c.BNot(x.(*sym.Term))
	case token.ARROW:
		in.reportNondet(instr, "channel receive")
	}
	panic(fmt.Sprintf("unop %v on %T", instr.Op, x))
}

// eq computes structural equality as a Bool term.
func (in *Interp) eq(site ssa.Instruction, a, b Value) *sym.Term {
	c := in.ctx
	switch a := a.(type) {
	case *sym.Term:
		return c.Eq(a, b.(*sym.Term))
	case string:
		return c.Bool(a == b.(string))
	case float64:
		return c.Bool(a == b.(float64))
	case Ptr:
		return c.Bool(a == b.(Ptr))
	case *Map:
		return c.Bool(a == b.(*Map))
	case nilFunc:
		_, ok := b.(nilFunc)
		return c.Bool(ok)
	case *ssa.Function:
		if _, ok := b.(nilFunc); ok {
			return c.F
		}
	case *Closure:
		if _, ok := b.(nilFunc); ok {
			return c.F
		}
	case Slice:
		// only comparison with nil is legal
		bs, ok := b.(Slice)
		if ok && bs.Nil && len(bs.Arr) == 0 {
			return c.Bool(a.Nil)
		}
		if a.Nil && len(a.Arr) == 0 {
			if ok {
				return c.Bool(bs.Nil)
			}
			if bb, ok := b.(*Blob); ok {
				return bb.IsNil
			}
		}
	case *Blob:
		if bs, ok := b.(Slice); ok && bs.Nil {
			return a.IsNil
		}
	case Iface:
		bi := b.(Iface)
		if a.T == nil || bi.T == nil {
			return c.Bool(a.T == nil && bi.T == nil)
		}
		if !types.Identical(a.T, bi.T) {
			return c.F
		}
		return in.eq(site, a.V, bi.V)
	case Struct:
		bs := b.(Struct)
		parts := make([]*sym.Term, len(a))
		for i := range a {
			parts[i] = in.eq(site, a[i], bs[i])
		}
		return c.And(parts...)
	case Array:
		bs := b.(Array)
		parts := make([]*sym.Term, len(a))
		for i := range a {
			parts[i] = in.eq(site, a[i], bs[i])
		}
		return c.And(parts...)
	}
	in.unsupported("comparison of %T and %T", a, b)
	return nil
}

func (in *Interp) binop(instr ssa.Instruction, op token.Token, t types.Type, x, y Value) Value {
	c := in.ctx
	switch op {
	case token.EQL:
		return in.eq(instr, x, y)
	case token.NEQ:
		return c.Not(in.eq(instr, x, y))
	}
	switch xv := x.(type) {
	case string:
		ys := y.(string)
		switch op {
		case token.ADD:
			return xv + ys
		case token.LSS:
			return c.Bool(xv < ys)
		case token.LEQ:
			return c.Bool(xv <= ys)
		case token.GTR:
			return c.Bool(xv > ys)
		case token.GEQ:
			return c.Bool(xv >= ys)
		}
	case float64:
		yf := y.(float64)
		switch op {
		case token.ADD:
			return xv + yf
		case token.SUB:
			return xv - yf
		case token.MUL:
			return xv * yf
		case token.QUO:
			return xv / yf
		case token.LSS:
			return c.Bool(xv < yf)
		case token.LEQ:
			return c.Bool(xv <= yf)
		case token.GTR:
			return c.Bool(xv > yf)
		case token.GEQ:
			return c.Bool(xv >= yf)
		}
	case *sym.Term:
		yt := y.(*sym.Term)
		signed := isSigned(t)
		if xv.W == 0 {
			switch op {
			case token.AND, token.LAND:
				return c.And(xv, yt)
			case token.OR, token.LOR:
				return c.Or(xv, yt)
			}
			break
		}
		switch op {
		case token.ADD:
			return c.Add(xv, yt)
		case token.SUB:
			return c.Sub(xv, yt)
		case token.MUL:
			return c.Mul(xv, yt)
		case token.QUO, token.REM:
			zero := c.Eq(yt, c.Const(0, yt.W))
			if in.run.Branch(zero, instr) {
				in.goPanic(instr, "integer divide by zero")
			}
			if op == token.QUO {
				if signed {
					return c.SDiv(xv, yt)
				}
				return c.UDiv(xv, yt)
			}
			if signed {
				return c.SRem(xv, yt)
			}
			return c.URem(xv, yt)
		case token.AND:
			return c.BAnd(xv, yt)
		case token.OR:
			return c.BOr(xv, yt)
		case token.XOR:
			return c.BXor(xv, yt)
		case token.AND_NOT:
			return c.BAnd(xv, c.BNot(yt))
		case token.SHL, token.SHR:
			// shift count: unsigned, may have a different width
			cnt := yt
			w := xv.W
			var big *sym.Term // count >= w
			if cnt.W > w {
				big = c.ULe(c.Const(uint64(w), cnt.W), cnt)
				cnt = c.Extract(cnt, w-1, 0)
			} else {
				cnt = c.ZExt(cnt, w)
				big = c.ULe(c.Const(uint64(w), w), cnt)
			}
			var r, ovf *sym.Term
			switch {
			case op == token.SHL:
				r, ovf = c.Shl(xv, cnt), c.Const(0, w)
			case signed:
				r = c.AShr(xv, cnt)
				ovf = c.AShr(xv, c.Const(uint64(w-1), w))
			default:
				r, ovf = c.LShr(xv, cnt), c.Const(0, w)
			}
			return c.Ite(big, ovf, r)
		case token.LSS:
			if signed {
				return c.SLt(xv, yt)
			}
			return c.ULt(xv, yt)
		case token.LEQ:
			if signed {
				return c.SLe(xv, yt)
			}
			return c.ULe(xv, yt)
		case token.GTR:
			if signed {
				return c.SLt(yt, xv)
			}
			return c.ULt(yt, xv)
		case token.GEQ:
			if signed {
				return c.SLe(yt, xv)
			}
			return c.ULe(yt, xv)
		}
	}
	in.unsupported("binop %v on %T,%T", op, x, y)
	return nil
}

func (in *Interp) conv(instr ssa.Instruction, dst, src types.Type, x Value) Value {
	c := in.ctx
	ud, us := dst.Underlying(), src.Underlying()
	switch xv := x.(type) {
	case *sym.Term:
		if isInteger(ud) {
			w := in.width(ud)
			switch {
			case xv.W == w:
				return xv
			case xv.W > w:
				return c.Extract(xv, w-1, 0)
			case isSigned(us):
				return c.SExt(xv, w)
			default:
				return c.ZExt(xv, w)
			}
		}
		if isString(ud) {
			if xv.IsConst() {
				return string(rune(xv.Val))
			}
		}
		if b, ok := ud.(*types.Basic); ok && b.Info()&types.IsFloat != 0 && xv.IsConst() {
			if isSigned(us) {
				return float64(int64(sym.SignExtend(xv.Val, xv.W)))
			}
			return float64(xv.Val)
		}
	case string:
		if sl, ok := ud.(*types.Slice); ok {
			if b, ok := sl.Elem().Underlying().(*types.Basic); ok && b.Kind() == types.Uint8 {
				arr := make([]Value, len(xv))
				for i := 0; i < len(xv); i++ {
					arr[i] = c.Const(uint64(xv[i]), 8)
				}
				return Slice{Arr: arr}
			}
		}
		if isString(ud) {
			return xv
		}
	case Slice:
		if isString(ud) {
			bs := make([]byte, len(xv.Arr))
			for i, e := range xv.Arr {
				t := e.(*sym.Term)
				if !t.IsConst() {
					in.unsupported("string conversion of symbolic bytes")
				}
				bs[i] = byte(t.Val)
			}
			return string(bs)
		}
	case Ptr:
		if _, ok := ud.(*types.Pointer); ok {
			return xv
		}
		if b, ok := ud.(*types.Basic); ok && b.Kind() == types.UnsafePointer {
			return xv
		}
	case float64:
		if b, ok := ud.(*types.Basic); ok && b.Info()&types.IsFloat != 0 {
			return xv
		}
		if isInteger(ud) {
			return c.Const(uint64(int64(xv)), in.width(ud))
		}
	}
	in.unsupported("conversion %v -> %v of %T", src, dst, x)
	return nil
}

// ---------- maps ----------

// keyEq returns the equality term of two map keys.
func (in *Interp) keyEq(site ssa.Instruction, a, b Value) *sym.Term {
	return in.eq(site, a, b)
}

// find returns the index of key in m (-1 if absent), forking on symbolic
// key equality.
func (in *Interp) mapFind(site ssa.Instruction, m *Map, key Value) int {
	if m == nil {
		return -1
	}
	for i := range m.Entries {
		e := in.keyEq(site, m.Entries[i].K, key)
		if e.IsFalse() {
			continue
		}
		if e.IsTrue() {
			return i
		}
		if in.run.Branch(e, site) {
			return i
		}
	}
	return -1
}

func (in *Interp) lookup(instr *ssa.Lookup, x, idx Value) Value {
	switch x := x.(type) {
	case *Map:
		mt := instr.X.Type().Underlying().(*types.Map)
		i := in.mapFind(instr, x, idx)
		var v Value
		if i >= 0 {
			v = copyVal(x.Entries[i].V)
		} else {
			v = in.zero(mt.Elem())
		}
		if instr.CommaOk {
			return Tuple{v, in.ctx.Bool(i >= 0)}
		}
		return v
	case string:
		i := in.indexInto(instr, idx.(*sym.Term), isSigned(instr.Index.Type()), len(x))
		return in.ctx.Const(uint64(x[i]), 8)
	}
	panic(fmt.Sprintf("lookup in %T", x))
}

func (in *Interp) mapUpdate(site ssa.Instruction, m *Map, k, v Value) {
	i := in.mapFind(site, m, k)
	if i >= 0 {
		m.Entries[i].V = copyVal(v)
		return
	}
	m.Entries = append(m.Entries, MapEntry{K: k, V: copyVal(v)})
}

func (in *Interp) mapDelete(site ssa.Instruction, m *Map, k Value) {
	i := in.mapFind(site, m, k)
	if i < 0 {
		return
	}
	m.Entries = append(m.Entries[:i:i], m.Entries[i+1:]...)
}

type mapIter struct {
	m    *Map
	keys []Value
	pos  int
	str  string
	isStr bool
}

func constKey(v Value) (uint64, bool) {
	if t, ok := v.(*sym.Term); ok && t.IsConst() {
		return t.Val, true
	}
	return 0, false
}

func (in *Interp) rangeIter(instr *ssa.Range, x Value) Value {
	switch x := x.(type) {
	case *Map:
		it := &mapIter{m: x}
		if x == nil {
			return it
		}
		allConst := true
		for _, e := range x.Entries {
			it.keys = append(it.keys, e.K)
			if _, ok := constKey(e.K); !ok {
				if _, isStr := e.K.(string); !isStr {
					allConst = false
				}
			}
		}
		if allConst {
			sort.SliceStable(it.keys, func(i, j int) bool {
				a, aok := constKey(it.keys[i])
				b, bok := constKey(it.keys[j])
				if aok && bok {
					return a < b
				}
				as, _ := it.keys[i].(string)
				bs, _ := it.keys[j].(string)
				return as < bs
			})
		}
		in.run.applyOrderPolicy(instr, it)
		return it
	case string:
		return &mapIter{str: x, isStr: true}
	}
	panic(fmt.Sprintf("range over %T", x))
}

func (it *mapIter) next(in *Interp, instr *ssa.Next) Value {
	c := in.ctx
	if it.isStr {
		if it.pos >= len(it.str) {
			return Tuple{c.F, c.Const(0, 64), c.Const(0, 32)}
		}
		// decode rune
		r, sz := decodeRune(it.str[it.pos:])
		i := it.pos
		it.pos += sz
		return Tuple{c.T, c.Const(uint64(i), 64), c.Const(uint64(r), 32)}
	}
	for it.pos < len(it.keys) {
		k := it.keys[it.pos]
		it.pos++
		// skip keys deleted since the iteration began (identity of key value)
		for _, e := range it.m.Entries {
			if sameKey(e.K, k) {
				return Tuple{c.T, k, copyVal(e.V)}
			}
		}
	}
	return Tuple{c.F, nil, nil}
}

func sameKey(a, b Value) bool {
	switch a := a.(type) {
	case *sym.Term:
		bt, ok := b.(*sym.Term)
		return ok && a == bt
	case string:
		bs, ok := b.(string)
		return ok && a == bs
	}
	return false
}

func decodeRune(s string) (rune, int) {
	for i, r := range s {
		_ = i
		n := len(string(r))
		if r == 0xFFFD {
			n = 1
		}
		return r, n
	}
	return 0, 0
}

// ---------- builtins ----------

func (in *Interp) lenOf(site ssa.Instruction, v Value) *sym.Term {
	c := in.ctx
	switch v := v.(type) {
	case string:
		return c.Const(uint64(len(v)), 64)
	case Slice:
		return c.Const(uint64(len(v.Arr)), 64)
	case *Blob:
		return v.Len
	case *Map:
		if v == nil {
			return c.Const(0, 64)
		}
		return c.Const(uint64(len(v.Entries)), 64)
	case Array:
		return c.Const(uint64(len(v)), 64)
	case Ptr:
		if v == nil {
			in.goPanic(site, "len of nil *array")
		}
		return c.Const(uint64(len((*v).(Array))), 64)
	}
	in.unsupported("len of %T", v)
	return nil
}

func (in *Interp) callBuiltin(caller *frame, site ssa.Instruction, fn *ssa.Builtin, args []Value) Value {
	c := in.ctx
	switch fn.Name() {
	case "len":
		return in.lenOf(site, args[0])
	case "cap":
		switch v := args[0].(type) {
		case Slice:
			return c.Const(uint64(cap(v.Arr)), 64)
		case Array:
			return c.Const(uint64(len(v)), 64)
		case *Blob:
			return in.lenOf(site, v)
		}
		in.unsupported("cap of %T", args[0])
	case "append":
		if b, ok := args[1].(*Blob); ok {
			if s, ok := args[0].(Slice); ok && len(s.Arr) == 0 {
				// append([]byte(nil), blob...) : a copy with the same identity
				return b
			}
			in.unsupported("append of opaque blob")
		}
		if _, ok := args[0].(*Blob); ok {
			in.unsupported("append to opaque blob")
		}
		dst := args[0].(Slice)
		var src []Value
		switch s := args[1].(type) {
		case Slice:
			src = s.Arr
		case string:
			for i := 0; i < len(s); i++ {
				src = append(src, c.Const(uint64(s[i]), 8))
			}
		}
		if len(src) == 0 {
			return dst
		}
		n := len(dst.Arr)
		if n+len(src) <= cap(dst.Arr) {
			res := dst.Arr[:n+len(src)]
			for i, v := range src {
				store(&res[n+i], v)
			}
			return Slice{Arr: res}
		}
		newCap := max(2*cap(dst.Arr), n+len(src))
		arr := make([]Value, n+len(src), newCap)
		for i := 0; i < n; i++ {
			arr[i] = copyVal(dst.Arr[i])
		}
		for i, v := range src {
			arr[n+i] = copyVal(v)
		}
		// zero the spare capacity lazily: cells beyond len hold nil until
		// resliced; fill with zero of elem type
		et := site.(ssa.Value).Type().Underlying().(*types.Slice).Elem()
		full := arr[:newCap]
		for i := n + len(src); i < newCap; i++ {
			full[i] = in.zero(et)
		}
		return Slice{Arr: arr}
	case "copy":
		if _, ok := args[0].(*Blob); ok {
			in.unsupported("copy into blob")
		}
		dst := args[0].(Slice)
		var src []Value
		switch s := args[1].(type) {
		case Slice:
			src = s.Arr
		case string:
			for i := 0; i < len(s); i++ {
				src = append(src, c.Const(uint64(s[i]), 8))
			}
		case *Blob:
			in.unsupported("copy from blob")
		}
		n := min(len(dst.Arr), len(src))
		tmp := make([]Value, n)
		for i := 0; i < n; i++ {
			tmp[i] = copyVal(src[i])
		}
		for i := 0; i < n; i++ {
			store(&dst.Arr[i], tmp[i])
		}
		return c.Const(uint64(n), 64)
	case "delete":
		m := args[0].(*Map)
		if m != nil {
			in.mapDelete(site, m, args[1])
		}
		return nil
	case "clear":
		switch v := args[0].(type) {
		case *Map:
			if v != nil {
				v.Entries = nil
			}
			return nil
		}
		in.unsupported("clear of %T", args[0])
	case "print", "println":
		return nil
	case "min", "max":
		sig := fn.Type().(*types.Signature)
		pt := sig.Params().At(0).Type()
		if !isInteger(pt) {
			in.unsupported("min/max on %v", pt)
		}
		signed := isSigned(pt)
		acc := args[0].(*sym.Term)
		for _, a := range args[1:] {
			at := a.(*sym.Term)
			var lt *sym.Term
			if signed {
				lt = c.SLt(at, acc)
			} else {
				lt = c.ULt(at, acc)
			}
			if fn.Name() == "min" {
				acc = c.Ite(lt, at, acc)
			} else {
				acc = c.Ite(lt, acc, at)
			}
		}
		return acc
	case "recover":
		return in.doRecover(caller)
	case "ssa:wrapnilchk":
		if isNilPtr(args[0]) {
			in.goPanic(site, "value method called through nil pointer")
		}
		return args[0]
	case "panic":
		panic(&targetPanic{val: args[0], msg: "panic", site: in.siteStr(site)})
	}
	in.unsupported("builtin %s", fn.Name())
	return nil
}

func (in *Interp) doRecover(caller *frame) Value {
	// recover() is effective only when called directly by a deferred function:
	// caller is the deferred function's frame, caller.caller the panicking one.
	if caller != nil && caller.caller != nil && caller.caller.panicking {
		p := caller.caller.panicVal
		caller.caller.panicking = false
		caller.caller.panicVal = nil
		in.run.noteRecovered(p)
		if iv, ok := p.val.(Iface); ok {
			return iv
		}
		if s, ok := p.val.(string); ok {
			return Iface{T: types.Typ[types.String], V: s}
		}
		return Iface{T: types.Typ[types.String], V: p.msg}
	}
	return Iface{}
}
