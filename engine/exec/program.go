package exec

import (
	"fmt"
	"go/token"
	"go/types"
	"os"
	"path/filepath"
	"strings"
	"sync"

	"golang.org/x/tools/go/packages"
	"golang.org/x/tools/go/ssa"
	"golang.org/x/tools/go/ssa/ssautil"
)

const RepoModule = "go.etcd.io/raft/v3"

// Program is the shared, read-only SSA form of /repo plus harness overlays.
type Program struct {
	Prog     *ssa.Program
	Fset     *token.FileSet
	Pkgs     map[string]*ssa.Package // by import path
	RepoDir  string
	Overlay  map[string][]byte
	mu       sync.Mutex
	methCache map[string]*ssa.Function
	metas     sync.Map
}

var interpretedPkgs = map[string]bool{
	RepoModule:                 true,
	RepoModule + "/quorum":     true,
	RepoModule + "/tracker":    true,
	RepoModule + "/confchange": true,
	RepoModule + "/raftpb":     true,
}

var allowedExtra = map[string]bool{
	"errors":          true,
	"encoding/binary": true,
	"slices":          true,
	"cmp":             true,
	"math/bits":       true,
	"sort":            true,
	"math":            true,
	"maps":            true,
	"iter":            true,
}

func (p *Program) interpretedPkg(path string) bool { return interpretedPkgs[path] }
func (p *Program) allowedPkg(path string) bool {
	return interpretedPkgs[path] || allowedExtra[path]
}

// Load type-checks the repo packages with the harness files overlaid and
// builds SSA. harnessDir/<pkgrel>/zz_vp_*.go are overlaid onto repoDir/<pkgrel>/.
func Load(repoDir string, harnessDir string, rtTemplate string) (*Program, error) {
	overlay := map[string][]byte{}
	pkgDirs := map[string]string{ // harness subdir -> repo subdir/package name
		"raft":       "",
		"quorum":     "quorum",
		"tracker":    "tracker",
		"confchange": "confchange",
	}
	for hsub, rsub := range pkgDirs {
		dir := filepath.Join(harnessDir, hsub)
		ents, err := os.ReadDir(dir)
		if err != nil {
			continue
		}
		n := 0
		for _, e := range ents {
			if !strings.HasPrefix(e.Name(), "zz_vp_") || !strings.HasSuffix(e.Name(), ".go") {
				continue
			}
			b, err := os.ReadFile(filepath.Join(dir, e.Name()))
			if err != nil {
				return nil, err
			}
			overlay[filepath.Join(repoDir, rsub, e.Name())] = b
			n++
		}
		if n > 0 && rtTemplate != "" {
			b, err := os.ReadFile(rtTemplate)
			if err != nil {
				return nil, err
			}
			src := strings.Replace(string(b), "package PKGNAME", "package "+hsub, 1)
			overlay[filepath.Join(repoDir, rsub, "zz_vp_rt.go")] = []byte(src)
		}
	}
	cfg := &packages.Config{
		Mode:       packages.LoadAllSyntax,
		Dir:        repoDir,
		Overlay:    overlay,
		BuildFlags: []string{"-tags=verif"},
		Env:        append(os.Environ(), "GOFLAGS=-mod=mod", "GOPROXY=off", "GOSUMDB=off", "GOTOOLCHAIN=local"),
	}
	pkgs, err := packages.Load(cfg, RepoModule, RepoModule+"/quorum", RepoModule+"/tracker", RepoModule+"/confchange", RepoModule+"/raftpb")
	if err != nil {
		return nil, err
	}
	var errs []string
	packages.Visit(pkgs, nil, func(p *packages.Package) {
		for _, e := range p.Errors {
			errs = append(errs, e.Error())
		}
	})
	if len(errs) > 0 {
		return nil, fmt.Errorf("load errors:\n%s", strings.Join(errs, "\n"))
	}
	prog, spkgs := ssautil.AllPackages(pkgs, ssa.InstantiateGenerics)
	prog.Build()
	P := &Program{Prog: prog, Fset: prog.Fset, Pkgs: map[string]*ssa.Package{}, RepoDir: repoDir, Overlay: overlay, methCache: map[string]*ssa.Function{}}
	for _, sp := range spkgs {
		if sp != nil {
			P.Pkgs[sp.Pkg.Path()] = sp
		}
	}
	for _, sp := range prog.AllPackages() {
		if _, ok := P.Pkgs[sp.Pkg.Path()]; !ok {
			P.Pkgs[sp.Pkg.Path()] = sp
		}
	}
	return P, nil
}

// fnMeta caches per-function facts used on every call.
type fnMeta struct {
	name      string
	intr      intrinsic
	skipInit  bool
	interpret bool
	idx       map[ssa.Value]int
	nvals     int
}

func (p *Program) meta(fn *ssa.Function) *fnMeta {
	if m, ok := p.metas.Load(fn); ok {
		return m.(*fnMeta)
	}
	m := &fnMeta{name: fn.String()}
	oname := m.name
	if fn.Origin() != nil {
		oname = fn.Origin().String()
	}
	if h, ok := intrinsics[oname]; ok {
		m.intr = h
	} else if strings.HasPrefix(fn.Name(), "vp") && fn.Pkg != nil {
		if h, ok := harnessIntrinsics[fn.Name()]; ok {
			m.intr = h
		}
	}
	path := fnPkgPath(fn)
	if fn.Name() == "init" && fn.Synthetic != "" && (!p.interpretedPkg(path) || path == RepoModule+"/raftpb") {
		m.skipInit = true
	}
	m.interpret = fn.Blocks != nil && (path == "" || p.allowedPkg(path))
	if fn.Blocks != nil {
		m.idx = map[ssa.Value]int{}
		for _, prm := range fn.Params {
			m.idx[prm] = len(m.idx)
		}
		for _, b := range fn.Blocks {
			for _, ins := range b.Instrs {
				if v, ok := ins.(ssa.Value); ok {
					m.idx[v] = len(m.idx)
				}
			}
		}
		m.nvals = len(m.idx)
	}
	actual, _ := p.metas.LoadOrStore(fn, m)
	return actual.(*fnMeta)
}

func (p *Program) lookupMethod(t types.Type, meth *types.Func) *ssa.Function {
	key := types.TypeString(t, nil) + "." + meth.Id()
	p.mu.Lock()
	defer p.mu.Unlock()
	if f, ok := p.methCache[key]; ok {
		return f
	}
	f := p.Prog.LookupMethod(t, meth.Pkg(), meth.Name())
	p.methCache[key] = f
	return f
}

// Harnesses returns the vpH_* functions of all repo packages.
func (p *Program) Harnesses() map[string]*ssa.Function {
	res := map[string]*ssa.Function{}
	for path, sp := range p.Pkgs {
		if !interpretedPkgs[path] {
			continue
		}
		for name, m := range sp.Members {
			if f, ok := m.(*ssa.Function); ok && strings.HasPrefix(name, "vpH_") {
				res[name] = f
			}
		}
	}
	return res
}
