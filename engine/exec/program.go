package exec

import (
	"fmt"
	"go/token"
	"go/types"
	"os"
	"path/filepath"
	"sort"
	"strings"
	"sync"

	"golang.org/x/tools/go/packages"
	"golang.org/x/tools/go/ssa"
	"golang.org/x/tools/go/ssa/ssautil"
)

const RepoModule = "go.etcd.io/raft/v3"

// Program is the shared, read-only SSA form of /repo plus harness overlays.
type Program struct {
	Prog     *ssa.Program
	// harness files that no longer compile against the tree (with the first error of each)
	DroppedHarnessFiles []string
	Fset     *token.FileSet
	Pkgs     map[string]*ssa.Package // by import path
	RepoDir  string
	Overlay  map[string][]byte
	mu       sync.Mutex
	methCache map[string]*ssa.Function
	metas     sync.Map
}

var interpretedPkgs = map[string]bool{
	RepoModule:                 true,
	RepoModule + "/quorum":     true,
	RepoModule + "/tracker":    true,
	RepoModule + "/confchange": true,
	RepoModule + "/raftpb":     true,
}

var allowedExtra = map[string]bool{
	"errors":          true,
	"encoding/binary": true,
	"slices":          true,
	"cmp":             true,
	"math/bits":       true,
	"sort":            true,
	"math":            true,
	"maps":            true,
	"iter":            true,
}

func (p *Program) interpretedPkg(path string) bool { return interpretedPkgs[path] }
func (p *Program) allowedPkg(path string) bool {
	return interpretedPkgs[path] || allowedExtra[path]
}

// Load type-checks the repo packages with the harness files overlaid and
// builds SSA. harnessDir/<pkgrel>/zz_vp_*.go are overlaid onto repoDir/<pkgrel>/.
func Load(repoDir string, harnessDir string, rtTemplate string) (*Program, error) {
	overlay := map[string][]byte{}
	pkgDirs := map[string]string{ // harness subdir -> repo subdir/package name
		"raft":       "",
		"quorum":     "quorum",
		"tracker":    "tracker",
		"confchange": "confchange",
	}
	for hsub, rsub := range pkgDirs {
		dir := filepath.Join(harnessDir, hsub)
		ents, err := os.ReadDir(dir)
		if err != nil {
			continue
		}
		n := 0
		for _, e := range ents {
			if !strings.HasPrefix(e.Name(), "zz_vp_") || !strings.HasSuffix(e.Name(), ".go") {
				continue
			}
			b, err := os.ReadFile(filepath.Join(dir, e.Name()))
			if err != nil {
				return nil, err
			}
			overlay[filepath.Join(repoDir, rsub, e.Name())] = b
			n++
		}
		if n > 0 && rtTemplate != "" {
			b, err := os.ReadFile(rtTemplate)
			if err != nil {
				return nil, err
			}
			src := strings.Replace(string(b), "package PKGNAME", "package "+hsub, 1)
			overlay[filepath.Join(repoDir, rsub, "zz_vp_rt.go")] = []byte(src)
		}
	}
	// A harness file lives inside the package it examines and may stop compiling
	// when internals it touches are renamed or retyped. Such files (and, in the
	// next rounds, the files that depended on them) are dropped from the overlay
	// and reported; errors anywhere else are fatal.
	var pkgs []*packages.Package
	var dropped []string
	for round := 0; ; round++ {
		cfg := &packages.Config{
			Mode:       packages.LoadAllSyntax,
			Dir:        repoDir,
			Overlay:    overlay,
			BuildFlags: []string{"-tags=verif"},
			Env:        append(os.Environ(), "GOFLAGS=-mod=mod", "GOPROXY=off", "GOSUMDB=off", "GOTOOLCHAIN=local"),
		}
		var err error
		pkgs, err = packages.Load(cfg, RepoModule, RepoModule+"/quorum", RepoModule+"/tracker", RepoModule+"/confchange", RepoModule+"/raftpb")
		if err != nil {
			return nil, err
		}
		var errs []string
		bad := map[string]string{}
		foreign := false
		packages.Visit(pkgs, nil, func(p *packages.Package) {
			for _, e := range p.Errors {
				errs = append(errs, e.Error())
				file := e.Pos
				if i := strings.Index(file, ":"); i >= 0 {
					file = file[:i]
				}
				base := filepath.Base(file)
				if _, isOverlay := overlay[file]; isOverlay && strings.HasPrefix(base, "zz_vp_") && base != "zz_vp_rt.go" {
					if _, ok := bad[file]; !ok {
						bad[file] = e.Error()
					}
				} else {
					foreign = true
				}
			}
		})
		if len(errs) == 0 {
			break
		}
		if foreign || len(bad) == 0 || round > 12 {
			return nil, fmt.Errorf("load errors:\n%s", strings.Join(errs, "\n"))
		}
		for f, msg := range bad {
			delete(overlay, f)
			dropped = append(dropped, filepath.Base(filepath.Dir(f))+"/"+filepath.Base(f)+": "+msg)
		}
		// a package left with only the runtime file keeps it (harmless)
	}
	sort.Strings(dropped)
	prog, spkgs := ssautil.AllPackages(pkgs, ssa.InstantiateGenerics)
	prog.Build()
	P := &Program{Prog: prog, Fset: prog.Fset, Pkgs: map[string]*ssa.Package{}, RepoDir: repoDir, Overlay: overlay, methCache: map[string]*ssa.Function{}, DroppedHarnessFiles: dropped}
	for _, sp := range spkgs {
		if sp != nil {
			P.Pkgs[sp.Pkg.Path()] = sp
		}
	}
	for _, sp := range prog.AllPackages() {
		if _, ok := P.Pkgs[sp.Pkg.Path()]; !ok {
			P.Pkgs[sp.Pkg.Path()] = sp
		}
	}
	return P, nil
}

// fnMeta caches per-function facts used on every call.
type fnMeta struct {
	name      string
	intr      intrinsic
	skipInit  bool
	interpret bool
	idx       map[ssa.Value]int
	nvals     int
	cov       []uint32 // per basic block: entered by some run (benign races: only ever set to 1)
	fn        *ssa.Function
}

func (p *Program) meta(fn *ssa.Function) *fnMeta {
	if m, ok := p.metas.Load(fn); ok {
		return m.(*fnMeta)
	}
	m := &fnMeta{name: fn.String(), fn: fn}
	if fn.Blocks != nil {
		m.cov = make([]uint32, len(fn.Blocks))
	}
	oname := m.name
	if fn.Origin() != nil {
		oname = fn.Origin().String()
	}
	if h, ok := intrinsics[oname]; ok {
		m.intr = h
	} else if strings.HasPrefix(fn.Name(), "vp") && fn.Pkg != nil {
		if h, ok := harnessIntrinsics[fn.Name()]; ok {
			m.intr = h
		}
	}
	path := fnPkgPath(fn)
	if fn.Name() == "init" && fn.Synthetic != "" && (!p.interpretedPkg(path) || path == RepoModule+"/raftpb") {
		m.skipInit = true
	}
	m.interpret = fn.Blocks != nil && (path == "" || p.allowedPkg(path))
	if fn.Blocks != nil {
		m.idx = map[ssa.Value]int{}
		for _, prm := range fn.Params {
			m.idx[prm] = len(m.idx)
		}
		for _, b := range fn.Blocks {
			for _, ins := range b.Instrs {
				if v, ok := ins.(ssa.Value); ok {
					m.idx[v] = len(m.idx)
				}
			}
		}
		m.nvals = len(m.idx)
	}
	actual, _ := p.metas.LoadOrStore(fn, m)
	return actual.(*fnMeta)
}

func (p *Program) lookupMethod(t types.Type, meth *types.Func) *ssa.Function {
	key := types.TypeString(t, nil) + "." + meth.Id()
	p.mu.Lock()
	defer p.mu.Unlock()
	if f, ok := p.methCache[key]; ok {
		return f
	}
	f := p.Prog.LookupMethod(t, meth.Pkg(), meth.Name())
	p.methCache[key] = f
	return f
}

// Harnesses returns the vpH_* functions of all repo packages.
func (p *Program) Harnesses() map[string]*ssa.Function {
	res := map[string]*ssa.Function{}
	for path, sp := range p.Pkgs {
		if !interpretedPkgs[path] {
			continue
		}
		for name, m := range sp.Members {
			if f, ok := m.(*ssa.Function); ok && strings.HasPrefix(name, "vpH_") {
				res[name] = f
			}
		}
	}
	return res
}


// BlockCoverage reports, for every function of the repository's own packages
// (harness code excluded) that has a body, which basic blocks were entered by
// any run so far. Functions never called are reported with all blocks missed
// if the program's SSA has been built for them.
type FuncCov struct {
	Name    string
	Total   int
	Missed  []string // "file:line" of the first positioned instruction of each block not entered
	Entered bool
}

func (p *Program) BlockCoverage() []FuncCov {
	seen := map[*ssa.Function]bool{}
	var out []FuncCov
	add := func(fn *ssa.Function) {
		if fn == nil || seen[fn] || fn.Blocks == nil {
			return
		}
		seen[fn] = true
		path := fnPkgPath(fn)
		if !strings.HasPrefix(path, RepoModule) || strings.HasSuffix(path, "/raftpb") {
			return
		}
		pos := p.Fset.Position(fn.Pos())
		base := pos.Filename
		if i := strings.LastIndex(base, "/"); i >= 0 {
			base = base[i+1:]
		}
		if strings.HasPrefix(base, "zz_vp_") || strings.HasPrefix(fn.Name(), "vp") {
			return
		}
		fc := FuncCov{Name: fn.String(), Total: len(fn.Blocks)}
		var cov []uint32
		if m, ok := p.metas.Load(fn); ok {
			cov = m.(*fnMeta).cov
		}
		for i, b := range fn.Blocks {
			if cov != nil && cov[i] != 0 {
				fc.Entered = true
				continue
			}
			where := "?"
			for _, ins := range b.Instrs {
				if ins.Pos().IsValid() {
					ps := p.Fset.Position(ins.Pos())
					f := ps.Filename
					if j := strings.LastIndex(f, "/"); j >= 0 {
						f = f[j+1:]
					}
					where = fmt.Sprintf("%s:%d", f, ps.Line)
					break
				}
			}
			fc.Missed = append(fc.Missed, fmt.Sprintf("b%d@%s", i, where))
		}
		out = append(out, fc)
	}
	for _, pkg := range p.Prog.AllPackages() {
		if pkg.Pkg == nil || !strings.HasPrefix(pkg.Pkg.Path(), RepoModule) {
			continue
		}
		for _, mem := range pkg.Members {
			switch x := mem.(type) {
			case *ssa.Function:
				add(x)
				for _, an := range x.AnonFuncs {
					add(an)
				}
			case *ssa.Type:
				for _, t := range []types.Type{x.Type(), types.NewPointer(x.Type())} {
					ms := p.Prog.MethodSets.MethodSet(t)
					for i := 0; i < ms.Len(); i++ {
						fn := p.Prog.MethodValue(ms.At(i))
						add(fn)
						if fn != nil {
							for _, an := range fn.AnonFuncs {
								add(an)
							}
						}
					}
				}
			}
		}
	}
	sort.Slice(out, func(i, j int) bool { return out[i].Name < out[j].Name })
	return out
}
