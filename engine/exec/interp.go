package exec

import (
	"fmt"
	"go/constant"
	"go/token"
	"go/types"
	"strings"

	"golang.org/x/tools/go/ssa"

	"vsym/sym"
)

// Interp is the per-run interpreter state.
type Interp struct {
	P       *Program
	ctx     *sym.Ctx
	run     *Run
	globals map[*ssa.Global]Ptr
	steps   int
	depth   int
	initing bool
	nblob   int
	// observation trace of this run
	obs []Obs
	// call stack (function names) for diagnostics
	stack []*ssa.Function
	sites []ssa.Instruction
}

type Obs struct {
	Label string
	Vals  []*sym.Term
}

// control-flow exceptions
type targetPanic struct {
	val  Value
	site string
	msg  string
}

type runAbort struct {
	kind string // "assume", "unsupported", "budget", "unwind", "solver"
	msg  string
}

type deferred struct {
	fn   Value
	args []Value
	site ssa.Instruction
}

type frame struct {
	in        *Interp
	fn        *ssa.Function
	env       []Value
	meta      *fnMeta
	block     *ssa.BasicBlock
	prev      *ssa.BasicBlock
	defers    []*deferred
	result    Value
	panicking bool
	panicVal  *targetPanic
	backEdges map[*ssa.BasicBlock]int
	caller    *frame
	freeVars  []Value
}

func (in *Interp) unsupported(format string, args ...interface{}) {
	msg := fmt.Sprintf(format, args...)
	if len(in.stack) > 0 {
		msg += " (in " + in.stack[len(in.stack)-1].String() + ")"
	}
	panic(&runAbort{kind: "unsupported", msg: msg})
}

func (in *Interp) goPanic(site ssa.Instruction, format string, args ...interface{}) {
	msg := fmt.Sprintf(format, args...)
	panic(&targetPanic{val: msg, msg: msg, site: in.siteStr(site) + in.callers()})
}

// callers renders the innermost call sites leading to the current frame.
func (in *Interp) callers() string {
	s := ""
	n := 0
	for i := len(in.sites) - 1; i >= 0 && n < 4; i-- {
		if in.sites[i] == nil {
			continue
		}
		s += " <- " + in.siteStr(in.sites[i])
		n++
	}
	return s
}

// shortSite renders "file.go:line".
func (in *Interp) shortSite(instr ssa.Instruction) string {
	pos := in.P.Fset.Position(instr.Pos())
	file := pos.Filename
	if i := strings.LastIndex(file, "/"); i >= 0 {
		file = file[i+1:]
	}
	return fmt.Sprintf("%s:%d", file, pos.Line)
}

func (in *Interp) siteStr(instr ssa.Instruction) string {
	if instr == nil {
		return "?"
	}
	fn := instr.Parent()
	pos := in.P.Fset.Position(instr.Pos())
	if !pos.IsValid() && fn != nil {
		pos = in.P.Fset.Position(fn.Pos())
	}
	file := pos.Filename
	if i := strings.LastIndex(file, "/"); i >= 0 {
		file = file[i+1:]
	}
	name := "?"
	if fn != nil {
		name = fn.String()
	}
	return fmt.Sprintf("%s@%s:%d", name, file, pos.Line)
}

func (fr *frame) get(key ssa.Value) Value {
	switch key := key.(type) {
	case nil:
		return nil
	case *ssa.Function:
		return key
	case *ssa.Builtin:
		return key
	case *ssa.Const:
		return fr.in.constValue(key)
	case *ssa.Global:
		return fr.in.global(key)
	case *ssa.FreeVar:
		for i, fv := range fr.fn.FreeVars {
			if fv == key {
				return fr.freeVars[i]
			}
		}
		panic("free var not found")
	}
	if i, ok := fr.meta.idx[key]; ok {
		return fr.env[i]
	}
	panic(fmt.Sprintf("get: no value for %T: %v (%s)", key, key.Name(), fr.fn))
}

func (in *Interp) global(g *ssa.Global) Ptr {
	if p, ok := in.globals[g]; ok {
		return p
	}
	cell := new(Value)
	*cell = in.zero(g.Type().(*types.Pointer).Elem())
	in.globals[g] = cell
	return cell
}

func (in *Interp) constValue(c *ssa.Const) Value {
	t := c.Type()
	if c.Value == nil {
		if _, ok := t.(*types.TypeParam); ok {
			in.unsupported("const of type param")
		}
		return in.zero(t)
	}
	if bt, ok := t.Underlying().(*types.Basic); ok {
		switch {
		case bt.Info()&types.IsBoolean != 0:
			return in.ctx.Bool(constant.BoolVal(c.Value))
		case bt.Info()&types.IsInteger != 0:
			w := in.width(bt)
			if isSigned(bt) {
				return in.ctx.Const(uint64(c.Int64()), w)
			}
			return in.ctx.Const(c.Uint64(), w)
		case bt.Info()&types.IsString != 0:
			if c.Value.Kind() == constant.String {
				return constant.StringVal(c.Value)
			}
			return string(rune(c.Int64()))
		case bt.Info()&types.IsFloat != 0:
			return c.Float64()
		}
	}
	in.unsupported("constant %v of type %v", c, t)
	return nil
}

// call dispatches a call to fn.
func (in *Interp) call(caller *frame, site ssa.Instruction, fn Value, args []Value) Value {
	switch fn := fn.(type) {
	case *ssa.Function:
		if fn == nil {
			in.goPanic(site, "call of nil function")
		}
		return in.callFunction(caller, site, fn, args, nil)
	case *Closure:
		return in.callFunction(caller, site, fn.Fn, args, fn.Env)
	case *ssa.Builtin:
		return in.callBuiltin(caller, site, fn, args)
	case nilFunc:
		in.goPanic(site, "call of nil func value")
	}
	in.unsupported("call of %T", fn)
	return nil
}

func fnPkgPath(fn *ssa.Function) string {
	f := fn
	if f.Origin() != nil {
		f = f.Origin()
	}
	for f.Parent() != nil {
		f = f.Parent()
	}
	if f.Pkg != nil {
		return f.Pkg.Pkg.Path()
	}
	if f.Object() != nil && f.Object().Pkg() != nil {
		return f.Object().Pkg().Path()
	}
	return ""
}

func (in *Interp) callFunction(caller *frame, site ssa.Instruction, fn *ssa.Function, args []Value, env []Value) Value {
	m := in.P.meta(fn)
	if m.intr != nil {
		return m.intr(in, caller, site, fn, args)
	}
	if m.skipInit {
		return nil // foreign package initialisers are not executed
	}
	if !m.interpret {
		if in.initing {
			return Opaque{"result of " + m.name}
		}
		in.unsupported("external function %s", m.name)
	}
	return in.callSSA(caller, site, fn, args, env)
}

const maxDepth = 200

func (in *Interp) callSSA(caller *frame, site ssa.Instruction, fn *ssa.Function, args []Value, env []Value) Value {
	in.depth++
	if in.depth > maxDepth {
		panic(&runAbort{kind: "unwind", msg: "call depth exceeded in " + fn.String()})
	}
	in.stack = append(in.stack, fn)
	in.sites = append(in.sites, site)
	in.run.noteFunction(in.P.meta(fn).name)
	defer func() {
		in.depth--
		in.stack = in.stack[:len(in.stack)-1]
		in.sites = in.sites[:len(in.sites)-1]
	}()
	meta := in.P.meta(fn)
	if meta.idx == nil {
		in.unsupported("function %s has no interpretable body", meta.name)
	}
	fr := &frame{in: in, fn: fn, caller: caller, freeVars: env, meta: meta}
	fr.env = make([]Value, meta.nvals)
	fr.block = fn.Blocks[0]
	meta.cov[0] = 1
	for i, p := range fn.Params {
		fr.env[fr.meta.idx[p]] = args[i]
	}
	for _, l := range fn.Locals {
		cell := new(Value)
		fr.env[fr.meta.idx[l]] = cell
	}
	for fr.block != nil {
		fr.runBlocks()
	}
	return fr.result
}

// runBlocks executes until return; panics propagate after running defers.
func (fr *frame) runBlocks() {
	defer func() {
		if fr.block == nil {
			return // normal return
		}
		x := recover()
		if x == nil {
			return
		}
		tp, ok := x.(*targetPanic)
		if !ok {
			panic(x) // runAbort or engine bug
		}
		fr.panicking = true
		fr.panicVal = tp
		fr.runDefers()
		// recovered: continue at the Recover block
		fr.block = fr.fn.Recover
		if fr.block == nil {
			// function has no recover block: return zero results
			fr.result = fr.in.zeroResults(fr.fn)
		}
	}()
	for {
		if !fr.step() {
			return
		}
	}
}

func (in *Interp) zeroResults(fn *ssa.Function) Value {
	res := fn.Signature.Results()
	switch res.Len() {
	case 0:
		return nil
	case 1:
		return in.zero(res.At(0).Type())
	}
	return in.zero(res)
}

func (fr *frame) runDefers() {
	for len(fr.defers) > 0 {
		d := fr.defers[len(fr.defers)-1]
		fr.defers = fr.defers[:len(fr.defers)-1]
		func() {
			defer func() {
				if x := recover(); x != nil {
					tp, ok := x.(*targetPanic)
					if !ok {
						panic(x)
					}
					fr.panicking = true
					fr.panicVal = tp
				}
			}()
			fr.in.call(fr, d.site, d.fn, d.args)
		}()
	}
	if fr.panicking {
		panic(fr.panicVal)
	}
}

// step runs the current block; returns false when the function returned.
func (fr *frame) step() bool {
	in := fr.in
	b := fr.block
	// phis
	i := 0
	if fr.prev != nil {
		var idx int
		for k, p := range b.Preds {
			if p == fr.prev {
				idx = k
				break
			}
		}
		var vals []Value
		for ; i < len(b.Instrs); i++ {
			phi, ok := b.Instrs[i].(*ssa.Phi)
			if !ok {
				break
			}
			vals = append(vals, fr.get(phi.Edges[idx]))
		}
		for k, v := range vals {
			fr.env[fr.meta.idx[b.Instrs[k].(*ssa.Phi)]] = v
		}
	}
	for ; i < len(b.Instrs); i++ {
		in.steps++
		if in.steps > in.run.ex.Opt.MaxSteps {
			panic(&runAbort{kind: "budget", msg: "instruction budget exceeded"})
		}
		switch fr.visit(b.Instrs[i]) {
		case kReturn:
			return false
		case kJump:
			return true
		}
	}
	panic("block fell through")
}

type cont int

const (
	kNext cont = iota
	kReturn
	kJump
)

func (fr *frame) jump(to *ssa.BasicBlock) cont {
	if to.Index <= fr.block.Index {
		if fr.backEdges == nil {
			fr.backEdges = map[*ssa.BasicBlock]int{}
		}
		fr.backEdges[to]++
		if fr.backEdges[to] > fr.in.run.ex.Opt.Unwind {
			panic(&runAbort{kind: "unwind", msg: fmt.Sprintf("loop unwinding limit %d exceeded at %s", fr.in.run.ex.Opt.Unwind, fr.in.siteStr(to.Instrs[0]))})
		}
	} else if fr.backEdges != nil {
		// entering a loop header from outside starts a new unwinding count
		delete(fr.backEdges, to)
	}
	fr.prev, fr.block = fr.block, to
	fr.meta.cov[to.Index] = 1
	return kJump
}

func (fr *frame) visit(instr ssa.Instruction) cont {
	in := fr.in
	switch instr := instr.(type) {
	case *ssa.DebugRef:
	case *ssa.UnOp:
		fr.env[fr.meta.idx[instr]] = in.unop(instr, fr.get(instr.X))
	case *ssa.BinOp:
		fr.env[fr.meta.idx[instr]] = in.binop(instr, instr.Op, instr.X.Type(), fr.get(instr.X), fr.get(instr.Y))
	case *ssa.Call:
		fn, args := fr.prepareCall(instr, &instr.Call)
		fr.env[fr.meta.idx[instr]] = in.call(fr, instr, fn, args)
	case *ssa.ChangeInterface:
		fr.env[fr.meta.idx[instr]] = fr.get(instr.X)
	case *ssa.ChangeType:
		fr.env[fr.meta.idx[instr]] = fr.get(instr.X)
	case *ssa.Convert:
		fr.env[fr.meta.idx[instr]] = in.conv(instr, instr.Type(), instr.X.Type(), fr.get(instr.X))
	case *ssa.MakeInterface:
		fr.env[fr.meta.idx[instr]] = Iface{T: instr.X.Type(), V: fr.get(instr.X)}
	case *ssa.Extract:
		fr.env[fr.meta.idx[instr]] = fr.get(instr.Tuple).(Tuple)[instr.Index]
	case *ssa.Slice:
		fr.env[fr.meta.idx[instr]] = in.sliceOp(instr, fr.get(instr.X), fr.get(instr.Low), fr.get(instr.High), fr.get(instr.Max))
	case *ssa.Return:
		switch len(instr.Results) {
		case 0:
		case 1:
			fr.result = fr.get(instr.Results[0])
		default:
			res := make(Tuple, len(instr.Results))
			for i, r := range instr.Results {
				res[i] = fr.get(r)
			}
			fr.result = res
		}
		fr.block = nil
		return kReturn
	case *ssa.RunDefers:
		fr.runDefers()
	case *ssa.Panic:
		v := fr.get(instr.X)
		msg := "panic"
		if iv, ok := v.(Iface); ok {
			if s, ok := iv.V.(string); ok {
				msg = s
			} else if iv.T != nil {
				msg = "panic(" + typeName(iv.T) + ")"
			}
		}
		panic(&targetPanic{val: v, msg: msg, site: in.siteStr(instr) + in.callers()})
	case *ssa.Store:
		addr := fr.get(instr.Addr).(Ptr)
		if addr == nil {
			in.goPanic(instr, "nil pointer dereference (store)")
		}
		store(addr, fr.get(instr.Val))
	case *ssa.If:
		c := fr.get(instr.Cond).(*sym.Term)
		succ := 1
		if in.run.Branch(c, instr) {
			succ = 0
		}
		return fr.jump(fr.block.Succs[succ])
	case *ssa.Jump:
		return fr.jump(fr.block.Succs[0])
	case *ssa.Defer:
		fn, args := fr.prepareCall(instr, &instr.Call)
		fr.defers = append(fr.defers, &deferred{fn: fn, args: args, site: instr})
	case *ssa.Go:
		in.reportNondet(instr, "go statement")
	case *ssa.MakeChan, *ssa.Send, *ssa.Select:
		in.reportNondet(instr, "channel operation")
	case *ssa.Alloc:
		var addr Ptr
		if instr.Heap {
			addr = new(Value)
			fr.env[fr.meta.idx[instr]] = addr
		} else {
			addr = fr.env[fr.meta.idx[instr]].(Ptr)
		}
		*addr = in.zero(instr.Type().Underlying().(*types.Pointer).Elem())
	case *ssa.MakeSlice:
		n := in.concreteInt(instr, fr.get(instr.Len), 0)
		c := in.concreteInt(instr, fr.get(instr.Cap), n)
		if n < 0 || c < n || c > 1<<20 {
			in.goPanic(instr, "makeslice: len/cap out of range")
		}
		arr := make([]Value, c)
		et := instr.Type().Underlying().(*types.Slice).Elem()
		for i := range arr {
			arr[i] = in.zero(et)
		}
		fr.env[fr.meta.idx[instr]] = Slice{Arr: arr[:n]}
	case *ssa.MakeMap:
		fr.env[fr.meta.idx[instr]] = &Map{}
	case *ssa.Range:
		fr.env[fr.meta.idx[instr]] = in.rangeIter(instr, fr.get(instr.X))
	case *ssa.Next:
		fr.env[fr.meta.idx[instr]] = fr.get(instr.Iter).(*mapIter).next(in, instr)
	case *ssa.FieldAddr:
		p := fr.get(instr.X).(Ptr)
		if p == nil {
			in.goPanic(instr, "nil pointer dereference (field address)")
		}
		fr.env[fr.meta.idx[instr]] = &(*p).(Struct)[instr.Field]
	case *ssa.Field:
		fr.env[fr.meta.idx[instr]] = copyVal(fr.get(instr.X).(Struct)[instr.Field])
	case *ssa.IndexAddr:
		x := fr.get(instr.X)
		var arr []Value
		switch x := x.(type) {
		case Slice:
			arr = x.Arr
		case Ptr:
			if x == nil {
				in.goPanic(instr, "nil pointer dereference (index address)")
			}
			arr = (*x).(Array)
		case *Blob:
			in.unsupported("indexing an opaque byte blob")
		default:
			panic(fmt.Sprintf("IndexAddr on %T", x))
		}
		i := in.indexInto(instr, fr.get(instr.Index).(*sym.Term), isSigned(instr.Index.Type()), len(arr))
		fr.env[fr.meta.idx[instr]] = &arr[i]
	case *ssa.Index:
		x := fr.get(instr.X)
		switch x := x.(type) {
		case Array:
			i := in.indexInto(instr, fr.get(instr.Index).(*sym.Term), isSigned(instr.Index.Type()), len(x))
			fr.env[fr.meta.idx[instr]] = copyVal(x[i])
		case string:
			i := in.indexInto(instr, fr.get(instr.Index).(*sym.Term), isSigned(instr.Index.Type()), len(x))
			fr.env[fr.meta.idx[instr]] = in.ctx.Const(uint64(x[i]), 8)
		default:
			panic(fmt.Sprintf("Index on %T", x))
		}
	case *ssa.Lookup:
		fr.env[fr.meta.idx[instr]] = in.lookup(instr, fr.get(instr.X), fr.get(instr.Index))
	case *ssa.MapUpdate:
		m := fr.get(instr.Map).(*Map)
		if m == nil {
			in.goPanic(instr, "assignment to entry in nil map")
		}
		in.mapUpdate(instr, m, fr.get(instr.Key), fr.get(instr.Value))
	case *ssa.TypeAssert:
		fr.env[fr.meta.idx[instr]] = in.typeAssert(instr, fr.get(instr.X).(Iface))
	case *ssa.MakeClosure:
		var bindings []Value
		for _, b := range instr.Bindings {
			bindings = append(bindings, fr.get(b))
		}
		fr.env[fr.meta.idx[instr]] = &Closure{Fn: instr.Fn.(*ssa.Function), Env: bindings}
	case *ssa.SliceToArrayPointer:
		in.unsupported("SliceToArrayPointer")
	default:
		panic(fmt.Sprintf("unexpected instruction %T", instr))
	}
	return kNext
}

func (in *Interp) reportNondet(instr ssa.Instruction, what string) {
	panic(&runAbort{kind: "nondet", msg: what + " at " + in.siteStr(instr)})
}

func (fr *frame) prepareCall(site ssa.Instruction, call *ssa.CallCommon) (Value, []Value) {
	in := fr.in
	v := fr.get(call.Value)
	var fn Value
	var args []Value
	if call.Method == nil {
		fn = v
	} else {
		recv := v.(Iface)
		if recv.T == nil {
			in.goPanic(site, "method %s invoked on nil interface", call.Method.Name())
		}
		f := in.P.lookupMethod(recv.T, call.Method)
		if f == nil {
			in.unsupported("no method %s for dynamic type %v", call.Method.Name(), recv.T)
		}
		fn = f
		args = append(args, recv.V)
	}
	for _, a := range call.Args {
		args = append(args, fr.get(a))
	}
	return fn, args
}

// concreteInt turns an integer value into a Go int, forking on feasible values
// if it is symbolic. dflt is used when v is nil.
func (in *Interp) concreteInt(site ssa.Instruction, v Value, dflt int) int {
	if v == nil {
		return dflt
	}
	t := v.(*sym.Term)
	if t.IsConst() {
		return int(int64(sym.SignExtend(t.Val, t.W)))
	}
	val := in.run.Concretize(t, site)
	return int(int64(sym.SignExtend(val, t.W)))
}

// indexInto checks 0 <= idx < n (panicking on the out-of-range side) and
// returns a concrete index.
func (in *Interp) indexInto(site ssa.Instruction, idx *sym.Term, signed bool, n int) int {
	c := in.ctx
	idx64 := idx
	if idx.W < 64 {
		if signed {
			idx64 = c.SExt(idx, 64)
		} else {
			idx64 = c.ZExt(idx, 64)
		}
	}
	inb := c.ULt(idx64, c.Const(uint64(n), 64))
	if !in.run.Branch(inb, site) {
		in.goPanic(site, "index out of range [len %d]", n)
	}
	if idx64.IsConst() {
		return int(idx64.Val)
	}
	return int(in.run.Concretize(idx64, site))
}

func (in *Interp) sliceOp(instr *ssa.Slice, x, lo, hi, max Value) Value {
	c := in.ctx
	var arr []Value
	var isNil bool
	var length, capacity int
	switch x := x.(type) {
	case string:
		l, h := 0, len(x)
		if lo != nil {
			l = in.concreteInt(instr, lo, 0)
		}
		if hi != nil {
			h = in.concreteInt(instr, hi, 0)
		}
		if l < 0 || h > len(x) || l > h {
			in.goPanic(instr, "string slice bounds out of range")
		}
		return x[l:h]
	case Slice:
		arr = x.Arr
		isNil = x.Nil
		length, capacity = len(arr), cap(arr)
	case Ptr:
		if x == nil {
			in.goPanic(instr, "nil pointer dereference (slice of *array)")
		}
		arr = (*x).(Array)
		length, capacity = len(arr), len(arr)
	case *Blob:
		if lo == nil && hi == nil && max == nil {
			return x
		}
		in.unsupported("slicing an opaque byte blob")
	default:
		panic(fmt.Sprintf("slice of %T", x))
	}
	to64 := func(v Value, dflt int) *sym.Term {
		if v == nil {
			return c.Const(uint64(dflt), 64)
		}
		t := v.(*sym.Term)
		if t.W < 64 {
			return c.SExt(t, 64)
		}
		return t
	}
	l := to64(lo, 0)
	h := to64(hi, length)
	m := to64(max, capacity)
	// bounds: 0 <= l <= h <= m <= cap (unsigned compare handles negatives)
	ok := c.And(c.ULe(l, h), c.ULe(h, m), c.ULe(m, c.Const(uint64(capacity), 64)))
	if !in.run.Branch(ok, instr) {
		in.goPanic(instr, "slice bounds out of range [cap %d]", capacity)
	}
	li := in.concreteInt(instr, l, 0)
	hi2 := in.concreteInt(instr, h, 0)
	mi := in.concreteInt(instr, m, 0)
	full := arr[:capacity]
	res := Slice{Arr: full[li:hi2:mi]}
	if isNil && lo == nil && hi == nil {
		res.Nil = true
	}
	if isNil && li == 0 && hi2 == 0 {
		res.Nil = true
	}
	return res
}

func (in *Interp) typeAssert(instr *ssa.TypeAssert, itf Iface) Value {
	var ok bool
	var v Value
	if itf.T != nil {
		if types.IsInterface(instr.AssertedType) {
			it := instr.AssertedType.Underlying().(*types.Interface)
			ok = types.Implements(itf.T, it)
			if ok {
				v = itf
			}
		} else {
			ok = types.Identical(itf.T, instr.AssertedType)
			if ok {
				v = itf.V
			}
		}
	}
	if !ok {
		if instr.CommaOk {
			return Tuple{in.zero(instr.AssertedType), in.ctx.F}
		}
		in.goPanic(instr, "interface conversion: %v is not %v", itf.T, instr.AssertedType)
	}
	if instr.CommaOk {
		return Tuple{v, in.ctx.T}
	}
	return v
}

var _ = token.ADD
