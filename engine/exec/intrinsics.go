package exec

import (
	"fmt"
	"go/types"
	"sort"
	"strings"

	"golang.org/x/tools/go/ssa"

	"vsym/sym"
)

type intrinsic func(in *Interp, caller *frame, site ssa.Instruction, fn *ssa.Function, args []Value) Value

var intrinsics map[string]intrinsic
var harnessIntrinsics map[string]intrinsic

const opaqueString = "<opaque>"

func init() {
	nop := func(in *Interp, caller *frame, site ssa.Instruction, fn *ssa.Function, args []Value) Value { return nil }
	opaqueStr := func(in *Interp, caller *frame, site ssa.Instruction, fn *ssa.Function, args []Value) Value {
		in.run.noteStub(fn)
		return opaqueString
	}
	intrinsics = map[string]intrinsic{
		"(*sync.Mutex).Lock":      nop,
		"(*sync.Mutex).Unlock":    nop,
		"(*sync.RWMutex).Lock":    nop,
		"(*sync.RWMutex).Unlock":  nop,
		"(*sync.RWMutex).RLock":   nop,
		"(*sync.RWMutex).RUnlock": nop,
		"fmt.Sprintf":             opaqueStr,
		"fmt.Sprint":              opaqueStr,
		"fmt.Sprintln":            opaqueStr,
		"strings.Join":            opaqueStr,
		"strings.Repeat":          opaqueStr,
		"strconv.FormatUint":      opaqueStr,
		"strconv.FormatInt":       opaqueStr,
		"strconv.Itoa":            opaqueStr,
		"(*strings.Builder).String": opaqueStr,
		"(*bytes.Buffer).String":    opaqueStr,
		"fmt.Errorf": func(in *Interp, caller *frame, site ssa.Instruction, fn *ssa.Function, args []Value) Value {
			in.run.noteStub(fn)
			return in.newError(opaqueString)
		},
		"fmt.Fprintf":  writerStub,
		"fmt.Fprint":   writerStub,
		"fmt.Fprintln": writerStub,
		"(*strings.Builder).WriteString": writerStub,
		"(*strings.Builder).WriteByte": func(in *Interp, caller *frame, site ssa.Instruction, fn *ssa.Function, args []Value) Value {
			return Iface{}
		},
		"(*bytes.Buffer).WriteString": writerStub,
		"(*bytes.Buffer).WriteByte": func(in *Interp, caller *frame, site ssa.Instruction, fn *ssa.Function, args []Value) Value {
			return Iface{}
		},
		"(*strings.Builder).Len": func(in *Interp, caller *frame, site ssa.Instruction, fn *ssa.Function, args []Value) Value {
			in.unsupported("strings.Builder.Len")
			return nil
		},
		"google.golang.org/protobuf/proto.Clone":     protoClone,
		"google.golang.org/protobuf/proto.Size":      protoSize,
		"google.golang.org/protobuf/proto.Marshal":   protoMarshal,
		"google.golang.org/protobuf/proto.Unmarshal": protoUnmarshal,
		"google.golang.org/protobuf/proto.Equal":     protoEqual,
		"bytes.Equal":                                bytesEqual,
		"slices.Sort":                                slicesSort,
		"(*go.etcd.io/raft/v3.lockedRand).Intn": func(in *Interp, caller *frame, site ssa.Instruction, fn *ssa.Function, args []Value) Value {
			c := in.ctx
			n := args[1].(*sym.Term)
			v := in.run.NewInternal(64)
			in.run.Assume(c.And(c.SLe(c.Const(0, 64), v), c.SLt(v, n)))
			in.run.noteStub(fn)
			return v
		},
	}
	harnessIntrinsics = map[string]intrinsic{
		"vpU64": func(in *Interp, caller *frame, site ssa.Instruction, fn *ssa.Function, args []Value) Value {
			return in.run.NewInput("u64", 64)
		},
		"vpU32": func(in *Interp, caller *frame, site ssa.Instruction, fn *ssa.Function, args []Value) Value {
			return in.run.NewInput("u32", 32)
		},
		"vpU8": func(in *Interp, caller *frame, site ssa.Instruction, fn *ssa.Function, args []Value) Value {
			return in.run.NewInput("u8", 8)
		},
		"vpInt": func(in *Interp, caller *frame, site ssa.Instruction, fn *ssa.Function, args []Value) Value {
			return in.run.NewInput("int", 64)
		},
		"vpBool": func(in *Interp, caller *frame, site ssa.Instruction, fn *ssa.Function, args []Value) Value {
			return in.run.NewInput("bool", 0)
		},
		"vpChoose": func(in *Interp, caller *frame, site ssa.Instruction, fn *ssa.Function, args []Value) Value {
			nt := args[0].(*sym.Term)
			if !nt.IsConst() {
				in.unsupported("vpChoose with symbolic bound")
			}
			n := int(nt.Val)
			if v, ok := in.run.ReplayChoose(); ok {
				return in.ctx.Const(uint64(v), 64)
			}
			v := in.run.Choose(n)
			in.run.noteChoose(n, v)
			in.run.noteBound(site, fmt.Sprintf("choose<%d", n))
			return in.ctx.Const(uint64(v), 64)
		},
		"vpBytes": func(in *Interp, caller *frame, site ssa.Instruction, fn *ssa.Function, args []Value) Value {
			c := in.ctx
			in.nblob++
			b := &Blob{ID: in.nblob}
			b.IsNil = in.run.NewInput("blobnil", 0)
			b.Len = in.run.NewInput("bloblen", 64)
			in.run.Assume(c.And(c.ULe(b.Len, args[0].(*sym.Term)), c.Implies(b.IsNil, c.Eq(b.Len, c.Const(0, 64)))))
			in.run.blobLens = append(in.run.blobLens, b.Len)
			return b
		},
		"vpAssume": func(in *Interp, caller *frame, site ssa.Instruction, fn *ssa.Function, args []Value) Value {
			in.run.Assume(args[0].(*sym.Term))
			return nil
		},
		"vpAssert": func(in *Interp, caller *frame, site ssa.Instruction, fn *ssa.Function, args []Value) Value {
			in.run.Assert(args[0].(*sym.Term), args[1].(string), site)
			return nil
		},
		"vpObserve": func(in *Interp, caller *frame, site ssa.Instruction, fn *ssa.Function, args []Value) Value {
			o := Obs{Label: args[0].(string)}
			if s, ok := args[1].(Slice); ok {
				for _, v := range s.Arr {
					o.Vals = append(o.Vals, v.(*sym.Term))
				}
			}
			in.obs = append(in.obs, o)
			return nil
		},
		"vpAnd": func(in *Interp, caller *frame, site ssa.Instruction, fn *ssa.Function, args []Value) Value {
			return in.ctx.And(boolArgs(args)...)
		},
		"vpOr": func(in *Interp, caller *frame, site ssa.Instruction, fn *ssa.Function, args []Value) Value {
			return in.ctx.Or(boolArgs(args)...)
		},
		"vpNot": func(in *Interp, caller *frame, site ssa.Instruction, fn *ssa.Function, args []Value) Value {
			return in.ctx.Not(args[0].(*sym.Term))
		},
		"vpImplies": func(in *Interp, caller *frame, site ssa.Instruction, fn *ssa.Function, args []Value) Value {
			return in.ctx.Implies(args[0].(*sym.Term), args[1].(*sym.Term))
		},
		"vpIte": func(in *Interp, caller *frame, site ssa.Instruction, fn *ssa.Function, args []Value) Value {
			return in.ctx.Ite(args[0].(*sym.Term), args[1].(*sym.Term), args[2].(*sym.Term))
		},
		"vpB2U": func(in *Interp, caller *frame, site ssa.Instruction, fn *ssa.Function, args []Value) Value {
			return in.ctx.BoolToBV(args[0].(*sym.Term), 64)
		},
		"vpBlobID": func(in *Interp, caller *frame, site ssa.Instruction, fn *ssa.Function, args []Value) Value {
			c := in.ctx
			switch b := args[0].(type) {
			case *Blob:
				return c.Ite(c.Eq(b.Len, c.Const(0, 64)), c.Const(0, 64), c.Const(uint64(b.ID), 64))
			case Slice:
				if len(b.Arr) == 0 {
					return c.Const(0, 64)
				}
				return c.ZExt(b.Arr[0].(*sym.Term), 64)
			}
			in.unsupported("vpBlobID of %T", args[0])
			return nil
		},
		"vpCaller": func(in *Interp, caller *frame, site ssa.Instruction, fn *ssa.Function, args []Value) Value {
			// the call site of the function that called vpCaller
			n := len(in.sites)
			if n == 0 || in.sites[n-1] == nil {
				return "?"
			}
			return in.shortSite(in.sites[n-1])
		},
		"vpAssertEach": func(in *Interp, caller *frame, site ssa.Instruction, fn *ssa.Function, args []Value) Value {
			conds := args[1].(Slice)
			names := args[2].(Slice)
			cs := make([]*sym.Term, len(conds.Arr))
			ns := make([]string, len(conds.Arr))
			for i := range conds.Arr {
				cs[i] = conds.Arr[i].(*sym.Term)
				ns[i] = names.Arr[i].(string)
			}
			in.run.AssertEach(args[0].(string), cs, ns, site)
			return nil
		},
		"vpRewindInputs": func(in *Interp, caller *frame, site ssa.Instruction, fn *ssa.Function, args []Value) Value {
			in.run.RewindInputs()
			in.nblob = 0
			return nil
		},
		"vpSetMapOrder": func(in *Interp, caller *frame, site ssa.Instruction, fn *ssa.Function, args []Value) Value {
			in.run.orderPolicy = int(args[0].(*sym.Term).Val)
			return nil
		},
		"vpReachable": func(in *Interp, caller *frame, site ssa.Instruction, fn *ssa.Function, args []Value) Value {
			in.run.Assert(in.ctx.T, "reach:"+args[0].(string), site)
			return nil
		},
		"vpSymbolic": func(in *Interp, caller *frame, site ssa.Instruction, fn *ssa.Function, args []Value) Value {
			return in.ctx.T
		},
		"vpNote": func(in *Interp, caller *frame, site ssa.Instruction, fn *ssa.Function, args []Value) Value {
			in.run.noteBoundStr(args[0].(string), args[1].(string))
			return nil
		},
	}
}

func boolArgs(args []Value) []*sym.Term {
	var out []*sym.Term
	if len(args) == 1 {
		if s, ok := args[0].(Slice); ok {
			for _, v := range s.Arr {
				out = append(out, v.(*sym.Term))
			}
			return out
		}
	}
	for _, a := range args {
		out = append(out, a.(*sym.Term))
	}
	return out
}

func writerStub(in *Interp, caller *frame, site ssa.Instruction, fn *ssa.Function, args []Value) Value {
	in.run.noteStub(fn)
	return Tuple{in.ctx.Const(0, 64), Iface{}}
}

// newError builds an *errors.errorString value.
func (in *Interp) newError(msg string) Value {
	ep := in.P.Pkgs["errors"]
	if ep == nil {
		in.unsupported("errors package not loaded")
	}
	es := ep.Type("errorString")
	if es == nil {
		in.unsupported("errors.errorString not found")
	}
	cell := new(Value)
	*cell = Struct{msg}
	return Iface{T: types.NewPointer(es.Type()), V: Ptr(cell)}
}

func (r *Run) noteStub(fn *ssa.Function) {
	r.stubs[fn.String()]++
}

func (r *Run) noteBound(site ssa.Instruction, b string) {
	r.bounds[r.in.siteStr(site)] = b
}

func (r *Run) noteBoundStr(k, v string) { r.bounds[k] = v }

// ---------- protobuf ----------

func isByteSlice(t types.Type) bool {
	s, ok := t.Underlying().(*types.Slice)
	if !ok {
		return false
	}
	b, ok := s.Elem().Underlying().(*types.Basic)
	return ok && b.Kind() == types.Uint8
}

func isProtoInternalField(f *types.Var) bool {
	switch f.Name() {
	case "state", "unknownFields", "sizeCache":
		return true
	}
	return false
}

// deepCopyProto copies a generated-message value following protobuf-go's
// Clone/Merge semantics for proto2 messages.
func (in *Interp) deepCopyProto(v Value, t types.Type) Value {
	switch tt := t.Underlying().(type) {
	case *types.Pointer:
		p := v.(Ptr)
		if p == nil {
			return Ptr(nil)
		}
		cell := new(Value)
		*cell = in.deepCopyProto(*p, tt.Elem())
		return Ptr(cell)
	case *types.Struct:
		s := v.(Struct)
		out := make(Struct, len(s))
		for i := range s {
			f := tt.Field(i)
			if isProtoInternalField(f) {
				out[i] = in.zero(f.Type())
				continue
			}
			out[i] = in.deepCopyProto(s[i], f.Type())
		}
		return out
	case *types.Slice:
		if isByteSlice(t) {
			switch b := v.(type) {
			case *Blob:
				return b
			case Slice:
				if b.Nil {
					return Slice{Nil: true}
				}
				arr := make([]Value, len(b.Arr))
				copy(arr, b.Arr)
				return Slice{Arr: arr}
			}
		}
		s := v.(Slice)
		if len(s.Arr) == 0 {
			return Slice{Nil: true}
		}
		arr := make([]Value, len(s.Arr))
		for i := range s.Arr {
			arr[i] = in.deepCopyProto(s.Arr[i], tt.Elem())
		}
		return Slice{Arr: arr}
	}
	return copyVal(v)
}

func protoClone(in *Interp, caller *frame, site ssa.Instruction, fn *ssa.Function, args []Value) Value {
	m := args[0].(Iface)
	if m.T == nil {
		return m
	}
	in.run.noteStub(fn)
	return Iface{T: m.T, V: in.deepCopyProto(m.V, m.T)}
}

func (in *Interp) varintLen(v *sym.Term) *sym.Term {
	c := in.ctx
	n := c.Const(1, 64)
	for k := 1; k <= 9; k++ {
		n = c.Add(n, c.BoolToBV(c.ULe(c.Const(uint64(1)<<uint(7*k), 64), v), 64))
	}
	return n
}

func (in *Interp) bytesLen(site ssa.Instruction, v Value) (*sym.Term, *sym.Term) {
	switch b := v.(type) {
	case *Blob:
		return in.lenOf(site, b), in.ctx.Not(b.IsNil)
	case Slice:
		return in.ctx.Const(uint64(len(b.Arr)), 64), in.ctx.Bool(!b.Nil)
	}
	panic("bytesLen")
}

func protoSize(in *Interp, caller *frame, site ssa.Instruction, fn *ssa.Function, args []Value) Value {
	c := in.ctx
	m := args[0].(Iface)
	in.run.noteStub(fn)
	if m.T == nil {
		return c.Const(0, 64)
	}
	pt, ok := m.T.(*types.Pointer)
	if !ok {
		in.unsupported("proto.Size of %v", m.T)
	}
	named, _ := pt.Elem().(*types.Named)
	if named == nil || named.Obj().Name() != "Entry" {
		in.unsupported("proto.Size of %v (only Entry is modelled)", m.T)
	}
	p := m.V.(Ptr)
	if p == nil {
		return c.Const(0, 64)
	}
	st := named.Underlying().(*types.Struct)
	s := (*p).(Struct)
	size := c.Const(0, 64)
	for i := 0; i < st.NumFields(); i++ {
		f := st.Field(i)
		switch f.Name() {
		case "Term", "Index":
			fp := s[i].(Ptr)
			if fp != nil {
				size = c.Add(size, c.Add(c.Const(1, 64), in.varintLen((*fp).(*sym.Term))))
			}
		case "Type":
			fp := s[i].(Ptr)
			if fp != nil {
				// enums are int32 on the wire, sign-extended to 64 bits
				v := c.SExt((*fp).(*sym.Term), 64)
				size = c.Add(size, c.Add(c.Const(1, 64), in.varintLen(v)))
			}
		case "Data":
			l, present := in.bytesLen(site, s[i])
			size = c.Add(size, c.Ite(present, c.Add(c.Add(c.Const(1, 64), in.varintLen(l)), l), c.Const(0, 64)))
		}
	}
	return size
}

func protoMarshal(in *Interp, caller *frame, site ssa.Instruction, fn *ssa.Function, args []Value) Value {
	c := in.ctx
	m := args[0].(Iface)
	in.run.noteStub(fn)
	in.nblob++
	if m.T == nil || isNilPtr(m.V) {
		return Tuple{Slice{Nil: true}, Iface{}}
	}
	b := &Blob{ID: in.nblob, AttachT: m.T, IsNil: c.F}
	b.Attached = in.deepCopyProto(m.V, m.T)
	// the encoded length is an unconstrained small value; an all-default
	// message encodes to zero bytes, which callers cannot distinguish here.
	b.Len = in.run.NewInternal(64)
	in.run.Assume(c.ULe(b.Len, c.Const(1<<16, 64)))
	return Tuple{b, Iface{}}
}

func protoUnmarshal(in *Interp, caller *frame, site ssa.Instruction, fn *ssa.Function, args []Value) Value {
	in.run.noteStub(fn)
	m := args[1].(Iface)
	dst := m.V.(Ptr)
	if dst == nil {
		in.goPanic(site, "proto.Unmarshal into nil message")
	}
	pt := m.T.(*types.Pointer)
	switch b := args[0].(type) {
	case *Blob:
		if b.Attached == nil {
			if in.run.Branch(in.ctx.Eq(b.Len, in.ctx.Const(0, 64)), site) {
				store(dst, in.zero(pt.Elem()))
				return Iface{}
			}
			in.unsupported("proto.Unmarshal of a non-empty opaque blob without an attached message")
		}
		if !types.Identical(b.AttachT, m.T) {
			in.unsupported("proto.Unmarshal: blob holds %v, want %v", b.AttachT, m.T)
		}
		cp := in.deepCopyProto(b.Attached, b.AttachT).(Ptr)
		store(dst, *cp)
		return Iface{}
	case Slice:
		if len(b.Arr) == 0 {
			store(dst, in.zero(pt.Elem()))
			return Iface{}
		}
		in.unsupported("proto.Unmarshal of concrete bytes")
	}
	in.unsupported("proto.Unmarshal of %T", args[0])
	return nil
}

// protoEqualVal: field-wise equality following proto.Equal for proto2:
// scalar presence matters, empty and nil repeated fields are equal.
func (in *Interp) protoEqualVal(site ssa.Instruction, a, b Value, t types.Type) *sym.Term {
	c := in.ctx
	switch tt := t.Underlying().(type) {
	case *types.Pointer:
		pa, pb := a.(Ptr), b.(Ptr)
		if pa == nil || pb == nil {
			if _, isStruct := tt.Elem().Underlying().(*types.Struct); isStruct {
				// nil message vs empty message: Equal treats a nil (invalid) and
				// an empty message as different only when exactly one is nil
				return c.Bool(pa == nil && pb == nil)
			}
			return c.Bool(pa == nil && pb == nil)
		}
		return in.protoEqualVal(site, *pa, *pb, tt.Elem())
	case *types.Struct:
		sa, sb := a.(Struct), b.(Struct)
		var parts []*sym.Term
		for i := range sa {
			f := tt.Field(i)
			if isProtoInternalField(f) {
				continue
			}
			parts = append(parts, in.protoEqualVal(site, sa[i], sb[i], f.Type()))
		}
		return c.And(parts...)
	case *types.Slice:
		if isByteSlice(t) {
			in.unsupported("proto.Equal on bytes field")
		}
		sa, sb := a.(Slice), b.(Slice)
		if len(sa.Arr) != len(sb.Arr) {
			return c.F
		}
		var parts []*sym.Term
		for i := range sa.Arr {
			parts = append(parts, in.protoEqualVal(site, sa.Arr[i], sb.Arr[i], tt.Elem()))
		}
		return c.And(parts...)
	}
	return in.eq(site, a, b)
}

func protoEqual(in *Interp, caller *frame, site ssa.Instruction, fn *ssa.Function, args []Value) Value {
	in.run.noteStub(fn)
	a, b := args[0].(Iface), args[1].(Iface)
	if a.T == nil || b.T == nil {
		return in.ctx.Bool(a.T == nil && b.T == nil)
	}
	if !types.Identical(a.T, b.T) {
		return in.ctx.F
	}
	return in.protoEqualVal(site, a.V, b.V, a.T)
}

func bytesEqual(in *Interp, caller *frame, site ssa.Instruction, fn *ssa.Function, args []Value) Value {
	c := in.ctx
	a, aok := args[0].(Slice)
	b, bok := args[1].(Slice)
	if !aok || !bok {
		// blob vs something: only lengths are known
		la := in.lenOf(site, args[0])
		lb := in.lenOf(site, args[1])
		ba, _ := args[0].(*Blob)
		bb, _ := args[1].(*Blob)
		if ba != nil && bb != nil && ba == bb {
			return c.T
		}
		// different lengths => false; equal lengths => undetermined
		ne := c.Not(c.Eq(la, lb))
		if in.run.Branch(ne, site) {
			return c.F
		}
		if in.run.Branch(c.Eq(la, c.Const(0, 64)), site) {
			return c.T
		}
		in.unsupported("bytes.Equal on opaque blob content")
	}
	if len(a.Arr) != len(b.Arr) {
		return c.F
	}
	parts := make([]*sym.Term, len(a.Arr))
	for i := range a.Arr {
		parts[i] = c.Eq(a.Arr[i].(*sym.Term), b.Arr[i].(*sym.Term))
	}
	return c.And(parts...)
}

func slicesSort(in *Interp, caller *frame, site ssa.Instruction, fn *ssa.Function, args []Value) Value {
	c := in.ctx
	s := args[0].(Slice)
	et := fn.Signature.Params().At(0).Type().Underlying().(*types.Slice).Elem()
	if !isInteger(et) {
		return in.callSSA(caller, site, fn, args, nil)
	}
	signed := isSigned(et)
	n := len(s.Arr)
	allConst := true
	for _, v := range s.Arr {
		if !v.(*sym.Term).IsConst() {
			allConst = false
		}
	}
	if allConst {
		vals := make([]*sym.Term, n)
		for i, v := range s.Arr {
			vals[i] = v.(*sym.Term)
		}
		sort.SliceStable(vals, func(i, j int) bool {
			if signed {
				return int64(sym.SignExtend(vals[i].Val, vals[i].W)) < int64(sym.SignExtend(vals[j].Val, vals[j].W))
			}
			return vals[i].Val < vals[j].Val
		})
		for i := range vals {
			s.Arr[i] = vals[i]
		}
		return nil
	}
	if n > 16 {
		in.unsupported("slices.Sort of %d symbolic elements", n)
	}
	in.run.noteStub(fn)
	vals := make([]*sym.Term, n)
	for i, v := range s.Arr {
		vals[i] = v.(*sym.Term)
	}
	// odd-even transposition sorting network
	for round := 0; round < n; round++ {
		for i := round % 2; i+1 < n; i += 2 {
			a, b := vals[i], vals[i+1]
			var le *sym.Term
			if signed {
				le = c.SLe(a, b)
			} else {
				le = c.ULe(a, b)
			}
			vals[i] = c.Ite(le, a, b)
			vals[i+1] = c.Ite(le, b, a)
		}
	}
	for i := range vals {
		s.Arr[i] = vals[i]
	}
	return nil
}

var _ = strings.HasPrefix
var _ = fmt.Sprintf
