package main

import (
	"fmt"
	"os"
	"sort"

	"golang.org/x/tools/go/packages"
	"golang.org/x/tools/go/ssa"
	"golang.org/x/tools/go/ssa/ssautil"
)

func main() {
	cfg := &packages.Config{Mode: packages.LoadAllSyntax, Dir: "/repo"}
	pkgs, err := packages.Load(cfg, "go.etcd.io/raft/v3", "go.etcd.io/raft/v3/quorum", "go.etcd.io/raft/v3/tracker", "go.etcd.io/raft/v3/confchange", "go.etcd.io/raft/v3/raftpb")
	if err != nil {
		panic(err)
	}
	if packages.PrintErrors(pkgs) > 0 {
		os.Exit(1)
	}
	prog, spkgs := ssautil.AllPackages(pkgs, ssa.InstantiateGenerics)
	prog.Build()
	ext := map[string]int{}
	kinds := map[string]int{}
	for _, sp := range spkgs {
		if sp.Pkg.Path() == "go.etcd.io/raft/v3/raftpb" {
			continue
		}
		for fn := range ssautil.AllFunctions(prog) {
			if fn.Pkg != sp {
				continue
			}
			for _, b := range fn.Blocks {
				for _, in := range b.Instrs {
					kinds[fmt.Sprintf("%T", in)]++
					if c, ok := in.(ssa.CallInstruction); ok {
						if callee := c.Common().StaticCallee(); callee != nil {
							p := ""
							if callee.Pkg != nil {
								p = callee.Pkg.Pkg.Path()
							} else if callee.Origin() != nil && callee.Origin().Pkg != nil {
								p = callee.Origin().Pkg.Pkg.Path()
							}
							if len(p) < 17 || p[:17] != "go.etcd.io/raft/v" || p == "go.etcd.io/raft/v3/raftpb" {
								ext[callee.String()]++
							}
						}
					}
				}
			}
		}
	}
	var ks []string
	for k := range ext {
		ks = append(ks, k)
	}
	sort.Strings(ks)
	for _, k := range ks {
		fmt.Println(ext[k], k)
	}
	fmt.Println(kinds)
}
