package main

import (
	"encoding/json"
	"fmt"
	"os"
	"path/filepath"
	"strconv"

	"vsym/exec"
	"vsym/replay"
)

// cmdReplay re-runs one recorded counterexample natively against /repo's
// current working tree.
func cmdReplay(args []string) {
	if len(args) < 1 {
		fatal2("usage: vsym replay <file.json>")
	}
	b, err := os.ReadFile(args[0])
	if err != nil {
		fatal2("%v", err)
	}
	var rec struct {
		Property string   `json:"property"`
		Harness  string   `json:"harness"`
		Label    string   `json:"label"`
		Kind     string   `json:"kind"`
		Vector   []string `json:"vector"`
		Labels   []string `json:"labels"`
	}
	if err := json.Unmarshal(b, &rec); err != nil {
		fatal2("%v", err)
	}
	repo, verif := "/repo", "/verif"
	p := loadProg(repo, filepath.Join(verif, "harness"))
	hs := p.Harnesses()
	fn := hs[rec.Harness]
	if fn == nil {
		fatal2("harness %s not found", rec.Harness)
	}
	pk := fn.Pkg.Pkg.Path()
	pkgDirs := map[string][2]string{
		exec.RepoModule:                 {"", "raft"},
		exec.RepoModule + "/quorum":     {"quorum", "quorum"},
		exec.RepoModule + "/tracker":    {"tracker", "tracker"},
		exec.RepoModule + "/confchange": {"confchange", "confchange"},
	}
	var names []string
	for n, f := range hs {
		if f.Pkg.Pkg.Path() == pk {
			names = append(names, n)
		}
	}
	work, _ := os.MkdirTemp(filepath.Join(verif, "out"), "replay-")
	defer os.RemoveAll(work)
	bt := &replay.Batch{RepoDir: repo, PkgDir: pkgDirs[pk][0], PkgName: pkgDirs[pk][1], Harnesses: names, Overlay: p.Overlay,
		Vectors: []replay.Vector{{ID: 1, Harness: rec.Harness, Vals: rec.Vector, Labels: rec.Labels}}, WorkDir: work}
	res, _, err := bt.Run()
	if err != nil {
		fatal2("%v", err)
	}
	r := res[1]
	fmt.Printf("native status: %s %s\n", r.Status, r.Detail)
	for _, o := range r.Obs {
		fmt.Println("  obs:", o)
	}
	want := "assert:" + rec.Label
	if rec.Kind == "panic" {
		want = "panic"
	}
	if r.Status == want {
		fmt.Printf("VIOLATION property=%s replay=%s\n", rec.Property, args[0])
		os.Exit(1)
	}
	fmt.Println("not reproduced on the current tree")
	_ = strconv.Itoa
}
