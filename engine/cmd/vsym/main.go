package main

import (
	"strings"
	"flag"
	"fmt"
	"os"
	"regexp"
	"runtime/pprof"
	"sort"
	"time"

	"vsym/exec"
)

func main() {
	if len(os.Args) < 2 {
		fmt.Fprintln(os.Stderr, "usage: vsym run|check|list ...")
		os.Exit(2)
	}
	envs()
	switch os.Args[1] {
	case "check":
		cmdCheck(os.Args[2:])
	case "replay":
		cmdReplay(os.Args[2:])
	case "run":
		cmdRun(os.Args[2:])
	case "list":
		cmdList(os.Args[2:])
	default:
		fmt.Fprintln(os.Stderr, "unknown command")
		os.Exit(2)
	}
}

func loadProg(repo, harness string) *exec.Program {
	t0 := time.Now()
	p, err := exec.Load(repo, harness, harness+"/rt/zz_vp_rt.go.tmpl")
	if err != nil {
		fmt.Fprintln(os.Stderr, "load failed:", err)
		os.Exit(2)
	}
	fmt.Fprintf(os.Stderr, "loaded in %.1fs\n", time.Since(t0).Seconds())
	return p
}

func cmdList(args []string) {
	fs := flag.NewFlagSet("list", flag.ExitOnError)
	repo := fs.String("repo", "/repo", "")
	harness := fs.String("harness", "/verif/harness", "")
	fs.Parse(args)
	p := loadProg(*repo, *harness)
	var names []string
	for n := range p.Harnesses() {
		names = append(names, n)
	}
	sort.Strings(names)
	for _, n := range names {
		fmt.Println(n)
	}
}

func cmdRun(args []string) {
	fs := flag.NewFlagSet("run", flag.ExitOnError)
	repo := fs.String("repo", "/repo", "")
	harness := fs.String("harness", "/verif/harness", "")
	pat := fs.String("h", ".*", "harness name regexp")
	workers := fs.Int("j", 16, "")
	maxPaths := fs.Int("maxpaths", 0, "")
	unwind := fs.Int("unwind", 40, "")
	policy := fs.Int("policy", 0, "")
	verbose := fs.Bool("v", false, "")
	panicViol := fs.Bool("panics", false, "treat panics as violations")
	tmo := fs.Int("timeout", 60000, "solver timeout ms")
	prefix := fs.String("prefix", "", "run only this decision prefix")
	smtlog := fs.String("smtlog", "", "write worker 0's SMT transcript here")
	cpuprof := fs.String("cpuprofile", "", "")
	agroup := fs.Int("agroup", 1, "assertions per solver query")
	budget := fs.Int("budget", 0, "wall-clock budget per harness in seconds (0 = none)")
	covOut := fs.String("cov", "", "write the basic-block coverage of the repository's functions (union over the harnesses run) here")
	fs.Parse(args)
	p := loadProg(*repo, *harness)
	if *cpuprof != "" {
		f, _ := os.Create(*cpuprof)
		pprof.StartCPUProfile(f)
		defer pprof.StopCPUProfile()
	}
	re := regexp.MustCompile(*pat)
	hs := p.Harnesses()
	var names []string
	for n := range hs {
		if re.MatchString(n) {
			names = append(names, n)
		}
	}
	sort.Strings(names)
	exit := 0
	for _, n := range names {
		opt := exec.Options{Workers: *workers, MaxSteps: 2000000, Unwind: *unwind, MaxPaths: *maxPaths, SolverKind: "z3", TimeoutMs: *tmo, OrderPolicy: *policy, MaxViol: 5, SampleEvery: 50, PanicIsViolation: *panicViol, Verbose: *verbose, OnlyPrefix: *prefix, SMTLog: *smtlog, AssertGroup: *agroup}
		if *budget > 0 {
			opt.Deadline = time.Now().Add(time.Duration(*budget) * time.Second)
		}
		ex := exec.NewExplorer(p, n, hs[n], opt)
		t0 := time.Now()
		ex.Explore()
		fmt.Printf("== %s: paths=%d %v transitions=%d instrs=%d queries=%d (sat %d unsat %d unk %d, %.2fs, max %.2fs) wall=%.1fs\n", n, ex.Paths, ex.StatusCount, ex.Transitions, ex.Instrs, ex.Solver.Queries, ex.Solver.Sat, ex.Solver.Unsat, ex.Solver.Unknown, ex.Solver.Seconds, ex.Solver.MaxQuery, time.Since(t0).Seconds())
		var keys []string
		for k := range ex.Sites {
			keys = append(keys, k)
		}
		sort.Strings(keys)
		for _, k := range keys {
			s := ex.Sites[k]
			fmt.Printf("   site %-60s reached=%d proved=%d trivial=%d\n", k, s.Reached, s.Proved, s.Trivial)
		}
		for k, c := range ex.PanicSites {
			fmt.Printf("   panic x%d %s\n", c, k)
		}
		for _, v := range ex.Violations {
			fmt.Printf("   VIOLATION %s %s at %s: %s inputs=%v\n", v.Kind, v.Label, v.Site, v.Msg, fmtInputs(v.Inputs))
			exit = 1
		}
		for i, m := range ex.Inconcl {
			if i > 10 {
				fmt.Printf("   ... %d more inconclusive\n", len(ex.Inconcl)-i)
				break
			}
			fmt.Printf("   INCONCLUSIVE %s\n", m)
			if exit == 0 {
				exit = 2
			}
		}
	}
	pprof.StopCPUProfile()
	if *covOut != "" {
		var sb strings.Builder
		tot, miss, fnNever := 0, 0, 0
		for _, fc := range p.BlockCoverage() {
			tot += fc.Total
			miss += len(fc.Missed)
			if !fc.Entered {
				fnNever++
				fmt.Fprintf(&sb, "NEVER  %s (%d blocks)\n", fc.Name, fc.Total)
				continue
			}
			if len(fc.Missed) > 0 {
				fmt.Fprintf(&sb, "PART   %s %d/%d missed: %s\n", fc.Name, len(fc.Missed), fc.Total, strings.Join(fc.Missed, " "))
			}
		}
		fmt.Fprintf(&sb, "TOTAL blocks=%d missed=%d functions-never-entered=%d\n", tot, miss, fnNever)
		os.WriteFile(*covOut, []byte(sb.String()), 0o644)
	}
	os.Exit(exit)
}

func fmtInputs(in []exec.InputRec) string {
	s := ""
	for _, i := range in {
		s += fmt.Sprintf("%s=%d ", i.Kind, i.Val)
	}
	return s
}
