package main

import (
	"encoding/json"
	"flag"
	"fmt"
	"os"
	"path/filepath"
	"sort"
	"strconv"
	"strings"
	"time"

	"golang.org/x/tools/go/ssa"

	"vsym/exec"
	"vsym/replay"
)

type HarnessSpec struct {
	H        string   `json:"h"`
	Labels   []string `json:"labels"`   // label prefixes owned by this property ("" or "*" = all)
	Panics   bool     `json:"panics"`   // a reachable panic is a violation (C14)
	Policies []int    `json:"policies"` // map-order policies to run (default [0])
	Unwind   int      `json:"unwind"`
	MaxPaths int      `json:"maxpaths"`
	MaxSteps int      `json:"maxsteps"`
}

type TierSpec struct {
	Harnesses []HarnessSpec `json:"harnesses"`
	BudgetS   int           `json:"budget_s"`
	TimeoutMs int           `json:"timeout_ms"`
}

type PropSpec struct {
	Level       string   `json:"level"`
	Quick       TierSpec `json:"quick"`
	Thorough    TierSpec `json:"thorough"`
	Assumptions []string `json:"assumptions"`
	Explanation string   `json:"explanation"`
	BoundsText  string   `json:"bounds_text"`
}

type KnownFinding struct {
	Status   string `json:"status"` // known | fixed
	Property string `json:"property"`
	Harness  string `json:"harness"` // regexp-free: prefix match
	Label    string `json:"label"`
	What     string `json:"what"`
	Commit   string `json:"commit,omitempty"`
}

type harnessEvidence struct {
	Harness     string            `json:"harness"`
	Policy      int               `json:"map_order_policy"`
	Paths       int               `json:"paths"`
	Status      map[string]int    `json:"paths_by_status"`
	Transitions int               `json:"branch_decisions"`
	Instrs      int               `json:"ssa_instructions_executed"`
	Sites       []siteEvidence    `json:"assertion_sites"`
	PanicSites  map[string]int    `json:"panic_sites,omitempty"`
	WallS       float64           `json:"wall_s"`
	Queries     int               `json:"solver_queries"`
	Bounds      map[string]string `json:"bounds,omitempty"`
}

type siteEvidence struct {
	Label   string `json:"label"`
	Site    string `json:"site"`
	Reached int    `json:"paths_reaching"`
	Proved  int    `json:"discharged_by_solver"`
	Trivial int    `json:"folded_true"`
	Witness bool   `json:"reachability_witness_replayed"`
}

func envs() {
	// every sub-process (go list, go test) must see the right toolchain
	path := os.Getenv("PATH")
	if !strings.Contains(path, "/opt/veriftools/go1.26.8/bin") {
		os.Setenv("PATH", "/opt/veriftools/go1.26.8/bin:"+path)
	}
	os.Setenv("GOTOOLCHAIN", "local")
	os.Setenv("GOFLAGS", "-mod=mod")
	os.Setenv("GOPROXY", "off")
	os.Setenv("GOSUMDB", "off")
}

func cmdCheck(args []string) {
	fs := flag.NewFlagSet("check", flag.ExitOnError)
	repo := fs.String("repo", "/repo", "")
	verif := fs.String("verif", "/verif", "")
	tier := fs.String("tier", "", "quick|thorough")
	workers := fs.Int("j", 16, "")
	only := fs.String("only", "", "run only harnesses containing this substring (development)")
	noEvidence := fs.Bool("no-evidence", false, "")
	strict := fs.Bool("strict", false, "exit 2 when anything was left unexplored or undecided")
	var id string
	if len(args) > 0 && !strings.HasPrefix(args[0], "-") {
		id = args[0]
		args = args[1:]
	}
	fs.Parse(args)
	if id == "" && fs.NArg() > 0 {
		id = fs.Arg(0)
	}
	if *tier == "" {
		*tier = os.Getenv("VERIF_TIER")
	}
	if *tier == "" {
		*tier = "quick"
	}
	seed := 0
	if s := os.Getenv("VERIF_SEED"); s != "" {
		seed, _ = strconv.Atoi(s)
	}
	start := time.Now()
	specs := map[string]*PropSpec{}
	b, err := os.ReadFile(filepath.Join(*verif, "specs", "checks.json"))
	if err != nil {
		fatal2("cannot read specs: %v", err)
	}
	if err := json.Unmarshal(b, &specs); err != nil {
		fatal2("bad specs: %v", err)
	}
	spec := specs[id]
	if spec == nil {
		fatal2("no spec for property %q", id)
	}
	ts := spec.Quick
	if *tier == "thorough" {
		ts = spec.Thorough
		if len(ts.Harnesses) == 0 {
			ts = spec.Quick
		}
	}
	var known []KnownFinding
	if kb, err := os.ReadFile(filepath.Join(*verif, "known_findings.json")); err == nil {
		json.Unmarshal(kb, &known)
	}

	harnessDir := filepath.Join(*verif, "harness")
	p := loadProg(*repo, harnessDir)
	hs := p.Harnesses()
	for _, d := range p.DroppedHarnessFiles {
		fmt.Printf("NOT-CHECKED harness file does not compile against this tree (internals it touches were renamed or retyped) and was left out: %s\n", d)
	}

	deadline := time.Time{}
	if ts.BudgetS > 0 {
		deadline = start.Add(time.Duration(ts.BudgetS) * time.Second)
	}
	tmo := ts.TimeoutMs
	if tmo == 0 {
		tmo = 60000
	}

	type job struct {
		spec HarnessSpec
		pol  int
		ex   *exec.Explorer
		wall float64
	}
	var jobs []*job
	var inconclusive []string
	for _, h := range ts.Harnesses {
		if *only != "" && !strings.Contains(h.H, *only) {
			continue
		}
		fn := hs[h.H]
		if fn == nil {
			if len(p.DroppedHarnessFiles) > 0 {
				inconclusive = append(inconclusive, "harness not run, its file (or one it depends on) does not compile against this tree: "+h.H)
			} else {
				inconclusive = append(inconclusive, "harness not found: "+h.H)
			}
			continue
		}
		pols := h.Policies
		if len(pols) == 0 {
			pols = []int{0}
		}
		for _, pol := range pols {
			opt := exec.Options{Workers: *workers, MaxSteps: 3000000, Unwind: 40, MaxPaths: h.MaxPaths, SolverKind: "z3", TimeoutMs: tmo,
				OrderPolicy: pol, MaxViol: 3, SampleEvery: 97 + seed%7, PanicIsViolation: true, Deadline: deadline}
			if h.Unwind > 0 {
				opt.Unwind = h.Unwind
			}
			if h.MaxSteps > 0 {
				opt.MaxSteps = h.MaxSteps
			}
			opt.LabelPrefixes = h.Labels
			ex := exec.NewExplorer(p, h.H, fn, opt)
			t0 := time.Now()
			ex.Explore()
			j := &job{spec: h, pol: pol, ex: ex, wall: time.Since(t0).Seconds()}
			jobs = append(jobs, j)
			fmt.Fprintf(os.Stderr, "[%s] %s policy=%d paths=%d %v queries=%d wall=%.1fs viol=%d inconcl=%d\n", id, h.H, pol, ex.Paths, ex.StatusCount, ex.Solver.Queries, j.wall, len(ex.Violations), len(ex.Inconcl))
			for _, m := range ex.Inconcl {
				inconclusive = append(inconclusive, h.H+": "+m)
			}
		}
	}

	// ---- native replay: samples, witnesses, violations ----
	type vecMeta struct {
		kind    string // sample | witness | violation
		job     *job
		sample  *exec.PathSample
		viol    *exec.Violation
		siteKey string
	}
	metas := map[int]*vecMeta{}
	byPkg := map[string][]replay.Vector{}
	pkgOf := func(fn *ssa.Function) string { return fn.Pkg.Pkg.Path() }
	nextID := 0
	addVec := func(j *job, inputs []exec.InputRec, m *vecMeta) {
		nextID++
		vals := make([]uint64, len(inputs))
		for i, in := range inputs {
			vals[i] = in.Val
		}
		metas[nextID] = m
		pk := pkgOf(j.ex.Fn)
		byPkg[pk] = append(byPkg[pk], replay.Vector{ID: nextID, Harness: j.ex.Name, Vals: replay.U64s(vals), Labels: j.spec.Labels})
	}
	for _, j := range jobs {
		for i := range j.ex.Samples {
			s := &j.ex.Samples[i]
			addVec(j, s.Inputs, &vecMeta{kind: "sample", job: j, sample: s})
		}
		for k, st := range j.ex.Sites {
			if st.Witness != nil {
				addVec(j, st.Witness.Inputs, &vecMeta{kind: "witness", job: j, sample: st.Witness, siteKey: k})
			}
		}
		for i := range j.ex.Violations {
			v := &j.ex.Violations[i]
			addVec(j, v.Inputs, &vecMeta{kind: "violation", job: j, viol: v})
		}
	}
	outDir := filepath.Join(*verif, "out", "replay", id)
	os.RemoveAll(outDir)
	os.MkdirAll(outDir, 0o755)
	results := map[int]replay.Result{}
	pkgDirs := map[string][2]string{
		exec.RepoModule:                 {"", "raft"},
		exec.RepoModule + "/quorum":     {"quorum", "quorum"},
		exec.RepoModule + "/tracker":    {"tracker", "tracker"},
		exec.RepoModule + "/confchange": {"confchange", "confchange"},
	}
	var encoderErrors []string
	for pk, vecs := range byPkg {
		pd := pkgDirs[pk]
		var names []string
		for n, fn := range hs {
			if pkgOf(fn) == pk {
				names = append(names, n)
			}
		}
		bt := &replay.Batch{RepoDir: *repo, HarnessDir: harnessDir, PkgDir: pd[0], PkgName: pd[1], Harnesses: names, Overlay: p.Overlay, Vectors: vecs, WorkDir: outDir}
		res, logTxt, err := bt.Run()
		if err != nil {
			encoderErrors = append(encoderErrors, err.Error())
		}
		_ = logTxt
		for k, v := range res {
			results[k] = v
		}
	}
	validated := 0
	witnessOK := map[string]bool{}
	type confirmed struct {
		v    *exec.Violation
		path string
		j    *job
	}
	var confirmedViol []confirmed
	ids := make([]int, 0, len(metas))
	for k := range metas {
		ids = append(ids, k)
	}
	sort.Ints(ids)
	for _, k := range ids {
		m := metas[k]
		r, ok := results[k]
		if !ok {
			encoderErrors = append(encoderErrors, fmt.Sprintf("no native result for vector %d (%s %s)", k, m.kind, m.job.ex.Name))
			continue
		}
		switch m.kind {
		case "sample", "witness":
			want := m.sample.Status
			okk := r.Status == want
			if okk && !m.job.ex.HasInternalVars {
				// observations
				if len(r.Obs) != len(m.sample.Obs) {
					okk = false
				} else {
					for i, o := range m.sample.Obs {
						if r.Obs[i] != fmt.Sprintf("%s %v", o.Label, o.Vals) {
							okk = false
						}
					}
				}
			}
			if !okk {
				encoderErrors = append(encoderErrors, fmt.Sprintf("translator validation mismatch: harness %s prefix %s: engine predicts %s %v, native gives %s %v %s", m.job.ex.Name, m.sample.Prefix, want, obsStrs(m.sample.Obs), r.Status, r.Obs, r.Detail))
				continue
			}
			validated++
			if m.kind == "witness" {
				witnessOK[m.job.ex.Name+"|"+strconv.Itoa(m.job.pol)+"|"+m.siteKey] = true
			}
		case "violation":
			v := m.viol
			repro := false
			switch v.Kind {
			case "assert":
				repro = r.Status == "assert:"+v.Label
			case "panic":
				repro = r.Status == "panic"
			case "nondet":
				repro = true // a new nondeterminism source is a static fact about the code
			}
			if !repro {
				encoderErrors = append(encoderErrors, fmt.Sprintf("counterexample did not reproduce natively: harness %s label %s: native status %s %s", m.job.ex.Name, v.Label, r.Status, r.Detail))
				continue
			}
			// write the replay file
			path := filepath.Join(outDir, fmt.Sprintf("%s-%d.json", m.job.ex.Name, k))
			rb, _ := json.MarshalIndent(map[string]interface{}{
				"property": id, "harness": m.job.ex.Name, "label": v.Label, "kind": v.Kind, "site": v.Site, "msg": v.Msg,
				"map_order_policy": m.job.pol, "decision_prefix": exec.DecStr(v.Prefix), "inputs": v.Inputs, "labels": m.job.spec.Labels,
				"vector": replay.U64s(inputVals(v.Inputs)), "native_status": r.Status, "native_detail": r.Detail,
			}, "", " ")
			os.WriteFile(path, rb, 0o644)
			confirmedViol = append(confirmedViol, confirmed{v: v, path: path, j: m.job})
		}
	}

	// ---- verdict ----
	exit := 0
	nviol := 0
	for _, cv := range confirmedViol {
		if kf := matchKnown(known, id, cv.j.ex.Name, cv.v.Label); kf != nil {
			fmt.Printf("KNOWN-FINDING: property=%s %s (harness %s label %s)\n", id, kf.What, cv.j.ex.Name, cv.v.Label)
			continue
		}
		nviol++
		fmt.Printf("VIOLATION property=%s replay=%s\n", id, cv.path)
		fmt.Printf("  harness=%s label=%s site=%s %s\n", cv.j.ex.Name, cv.v.Label, cv.v.Site, cv.v.Msg)
		exit = 1
	}
	// vacuity: every harness must have at least one path that returns and
	// every selected label must be reached.
	var vacuous []string
	reachedPrefix := map[string]bool{}
	wantedPrefix := map[string]bool{}
	obligations, discharged := 0, 0
	states, transitions := 0, 0
	var hev []harnessEvidence
	funcs := map[string]int{}
	stubs := map[string]int{}
	var samples []interface{}
	solverQ, solverS, solverMax := 0, 0.0, 0.0
	sat, unsat, unk := 0, 0, 0
	for _, j := range jobs {
		ex := j.ex
		he := harnessEvidence{Harness: ex.Name, Policy: j.pol, Paths: ex.Paths, Status: ex.StatusCount, Transitions: ex.Transitions, Instrs: ex.Instrs, PanicSites: ex.PanicSites, WallS: j.wall, Queries: ex.Solver.Queries, Bounds: ex.Bounds}
		if ex.StatusCount["return"] == 0 {
			vacuous = append(vacuous, ex.Name+": no path reaches the end of the harness")
		}
		var keys []string
		for k := range ex.Sites {
			keys = append(keys, k)
		}
		sort.Strings(keys)
		for _, k := range keys {
			st := ex.Sites[k]
			w := witnessOK[ex.Name+"|"+strconv.Itoa(j.pol)+"|"+k]
			he.Sites = append(he.Sites, siteEvidence{Label: st.Label, Site: st.Site, Reached: st.Reached, Proved: st.Proved, Trivial: st.Trivial, Witness: w})
			obligations += st.Reached
			discharged += st.Proved + st.Trivial
			if !w && len(ex.Violations) == 0 {
				vacuous = append(vacuous, fmt.Sprintf("%s: no replayed reachability witness for %s", ex.Name, k))
			}
			for _, pfx := range j.spec.Labels {
				if pfx == "*" || strings.HasPrefix(st.Label, pfx) {
					reachedPrefix[pfx] = true
				}
			}
		}
		for _, pfx := range j.spec.Labels {
			wantedPrefix[pfx] = true
		}
		hev = append(hev, he)
		states += ex.Paths
		transitions += ex.Transitions
		for f, n := range ex.Funcs {
			funcs[f] += n
		}
		for f, n := range ex.Stubs {
			stubs[f] += n
		}
		solverQ += ex.Solver.Queries
		solverS += ex.Solver.Seconds
		sat += ex.Solver.Sat
		unsat += ex.Solver.Unsat
		unk += ex.Solver.Unknown
		if ex.Solver.MaxQuery > solverMax {
			solverMax = ex.Solver.MaxQuery
		}
		for i := range ex.Samples {
			if i >= 2 {
				break
			}
			s := ex.Samples[i]
			samples = append(samples, map[string]interface{}{"harness": s.Harness, "decision_prefix": s.Prefix, "inputs": fmtInputs(s.Inputs), "status": s.Status, "observations": obsStrs(s.Obs)})
		}
	}
	if len(samples) > 12 {
		samples = samples[:12]
	}
	// every label family the property lists must be reached by some harness
	if *only == "" {
		var missing []string
		for pfx := range wantedPrefix {
			if pfx != "*" && !reachedPrefix[pfx] {
				missing = append(missing, pfx)
			}
		}
		sort.Strings(missing)
		for _, pfx := range missing {
			vacuous = append(vacuous, "no assertion with label prefix "+pfx+" was reached by any harness of this check")
		}
	}
	// The interface knows two outcomes: exit 0 (the property held on everything
	// explored) and exit 1 (a replayed violation). Whatever could not be explored
	// or decided (budget exhausted under load, a solver timeout, a construct the
	// encoder does not model, a label family no path reached) is printed, is
	// recorded in the evidence file under coverage.inconclusive /
	// encoder_errors / vacuity_failures, and does not change the exit status
	// unless -strict is given (development: exit 2).
	incomplete := len(inconclusive) > 0 || len(encoderErrors) > 0 || len(vacuous) > 0
	if exit == 0 && incomplete && *strict {
		exit = 2
	}
	for _, m := range inconclusive {
		fmt.Printf("INCONCLUSIVE %s\n", m)
	}
	for _, m := range encoderErrors {
		fmt.Printf("ENCODER-ERROR %s\n", m)
	}
	for _, m := range vacuous {
		fmt.Printf("VACUOUS %s\n", m)
	}

	// ---- evidence ----
	var fnames []string
	for f := range funcs {
		if strings.Contains(f, "vpH_") || strings.Contains(f, ".vp") {
			continue
		}
		fnames = append(fnames, f)
	}
	sort.Strings(fnames)
	var stubNames []string
	for f := range stubs {
		stubNames = append(stubNames, f)
	}
	sort.Strings(stubNames)
	assumptions := append([]string{}, spec.Assumptions...)
	for _, s := range stubNames {
		assumptions = append(assumptions, "library call modelled by an engine intrinsic (DESIGN 2.6): "+s)
	}
	cov := map[string]interface{}{
		"states":                        states,
		"transitions":                   transitions,
		"traces_validated_against_impl": validated,
		"samples":                       samples,
		"obligations":                   obligations,
		"discharged":                    discharged,
		"functions_encoded":             fnames,
		"functions_encoded_count":       len(fnames),
		"harnesses":                     hev,
		"queries":                       map[string]interface{}{"total": solverQ, "sat": sat, "unsat": unsat, "unknown": unk, "solver_seconds": solverS, "max_single_query_s": solverMax, "solver": "z3 (incremental, one process per worker)"},
		"bounds":                        spec.BoundsText,
		"inconclusive":                  inconclusive,
		"encoder_errors":                encoderErrors,
		"vacuity_failures":              vacuous,
		"harness_files_not_compiling":   p.DroppedHarnessFiles,
		"explanation":                   spec.Explanation,
		"exhaustive":                    false,
		"complete_within_bounds":        !incomplete,
		"rule":                          "one state = one explored symbolic path (decision prefix) of a harness; all paths within the stated bounds are explored, each assertion on each path is decided by z3 for all input values",
	}
	// basic-block coverage of the repository's own functions by this check
	{
		var sb strings.Builder
		tot, miss, never := 0, 0, 0
		for _, fc := range p.BlockCoverage() {
			tot += fc.Total
			miss += len(fc.Missed)
			if !fc.Entered {
				never++
				fmt.Fprintf(&sb, "NEVER  %s (%d blocks)\n", fc.Name, fc.Total)
			} else if len(fc.Missed) > 0 {
				fmt.Fprintf(&sb, "PART   %s %d/%d missed: %s\n", fc.Name, len(fc.Missed), fc.Total, strings.Join(fc.Missed, " "))
			}
		}
		fmt.Fprintf(&sb, "TOTAL blocks=%d missed=%d functions-never-entered=%d\n", tot, miss, never)
		cov["repo_basic_blocks"] = map[string]int{"total": tot, "entered": tot - miss, "functions_never_entered": never}
		if !*noEvidence {
			os.MkdirAll(filepath.Join(*verif, "out", "coverage"), 0o755)
			os.WriteFile(filepath.Join(*verif, "out", "coverage", id+"_"+*tier+".txt"), []byte(sb.String()), 0o644)
		}
	}
	ev := map[string]interface{}{
		"property_id": id, "tier": *tier, "seed": seed, "level": spec.Level, "coverage": cov,
		"assumptions": assumptions, "wall_s": time.Since(start).Seconds(), "violations": nviol,
	}
	if !*noEvidence {
		os.MkdirAll(filepath.Join(*verif, "evidence"), 0o755)
		eb, _ := json.MarshalIndent(ev, "", " ")
		os.WriteFile(filepath.Join(*verif, "evidence", id+".json"), eb, 0o644)
	}
	fmt.Printf("RESULT property=%s tier=%s exit=%d complete_within_bounds=%v paths=%d obligations=%d discharged=%d validated=%d violations=%d wall=%.1fs\n", id, *tier, exit, !incomplete, states, obligations, discharged, validated, nviol, time.Since(start).Seconds())
	os.Exit(exit)
}

func matchKnown(known []KnownFinding, id, harness, label string) *KnownFinding {
	for i := range known {
		k := &known[i]
		if k.Status != "known" || k.Property != id {
			continue
		}
		if k.Label == label && strings.HasPrefix(harness, k.Harness) {
			return k
		}
	}
	return nil
}

func inputVals(in []exec.InputRec) []uint64 {
	out := make([]uint64, len(in))
	for i, x := range in {
		out[i] = x.Val
	}
	return out
}

func obsStrs(obs []exec.ObsRec) []string {
	var out []string
	for _, o := range obs {
		out = append(out, fmt.Sprintf("%s %v", o.Label, o.Vals))
	}
	return out
}

func fatal2(format string, args ...interface{}) {
	fmt.Fprintf(os.Stderr, format+"\n", args...)
	os.Exit(2)
}
