// Package solver drives one incremental SMT solver process over stdin/stdout.
package solver

import (
	"bufio"
	"fmt"
	"io"
	"os/exec"
	"strconv"
	"strings"
	"time"
)

type Result int

const (
	Unsat Result = iota
	Sat
	Unknown
)

func (r Result) String() string { return [...]string{"unsat", "sat", "unknown"}[r] }

type Stats struct {
	Queries  int
	Sat      int
	Unsat    int
	Unknown  int
	Seconds  float64
	MaxQuery float64
	Errors   int
}

type Proc struct {
	Kind   string // z3 | z3-new | cvc5
	cmd    *exec.Cmd
	in     io.WriteCloser
	w      *bufio.Writer
	out    *bufio.Reader
	Stats  Stats
	Log    io.Writer // optional transcript
	dead   bool
	tmoMs  int
	nsync  int
	ErrMsg string
}

func Start(kind string, timeoutMs int) (*Proc, error) {
	var cmd *exec.Cmd
	switch kind {
	case "z3", "z3-new":
		cmd = exec.Command(kind, "-in", "-smt2", fmt.Sprintf("-t:%d", timeoutMs))
	case "cvc5":
		cmd = exec.Command("cvc5", "--incremental", "--lang=smt2", "--produce-models", fmt.Sprintf("--tlimit-per=%d", timeoutMs))
	default:
		return nil, fmt.Errorf("unknown solver %q", kind)
	}
	in, err := cmd.StdinPipe()
	if err != nil {
		return nil, err
	}
	out, err := cmd.StdoutPipe()
	if err != nil {
		return nil, err
	}
	cmd.Stderr = cmd.Stdout
	if err := cmd.Start(); err != nil {
		return nil, err
	}
	p := &Proc{Kind: kind, cmd: cmd, in: in, w: bufio.NewWriterSize(in, 1<<16), out: bufio.NewReaderSize(out, 1<<16), tmoMs: timeoutMs}
	if kind == "cvc5" {
		p.Send("(set-logic ALL)")
	}
	p.Send("(set-option :produce-models true)")
	return p, nil
}

func (p *Proc) Close() {
	if p.dead {
		return
	}
	p.dead = true
	p.w.Flush()
	p.in.Close()
	done := make(chan struct{})
	go func() { p.cmd.Wait(); close(done) }()
	select {
	case <-done:
	case <-time.After(2 * time.Second):
		p.cmd.Process.Kill()
	}
}

// Send writes a command that produces no output.
func (p *Proc) Send(s string) {
	if p.Log != nil {
		fmt.Fprintln(p.Log, s)
	}
	p.w.WriteString(s)
	p.w.WriteByte('\n')
}

func (p *Proc) readLine() (string, error) {
	p.w.Flush()
	s, err := p.out.ReadString('\n')
	s = strings.TrimRight(s, "\r\n")
	if p.Log != nil {
		fmt.Fprintln(p.Log, "; <- "+s)
	}
	return s, err
}

// CheckSat issues (check-sat) and reads the verdict. Any "(error" line before
// the verdict makes the result Unknown.
func (p *Proc) CheckSat() Result {
	start := time.Now()
	p.Send("(check-sat)")
	res := Unknown
	sawErr := false
	for {
		line, err := p.readLine()
		if err != nil {
			p.Stats.Errors++
			p.ErrMsg = "solver died: " + err.Error()
			p.dead = true
			break
		}
		if line == "" {
			continue
		}
		if strings.HasPrefix(line, "(error") {
			sawErr = true
			p.Stats.Errors++
			p.ErrMsg = line
			continue
		}
		switch line {
		case "sat":
			res = Sat
		case "unsat":
			res = Unsat
		case "unknown", "timeout":
			res = Unknown
		default:
			continue
		}
		break
	}
	if sawErr {
		res = Unknown
	}
	d := time.Since(start).Seconds()
	p.Stats.Queries++
	p.Stats.Seconds += d
	if d > p.Stats.MaxQuery {
		p.Stats.MaxQuery = d
	}
	switch res {
	case Sat:
		p.Stats.Sat++
	case Unsat:
		p.Stats.Unsat++
	default:
		p.Stats.Unknown++
	}
	return res
}

// GetValues returns the values of the named constants (after a Sat verdict).
func (p *Proc) GetValues(names []string) (map[string]uint64, error) {
	res := map[string]uint64{}
	const chunk = 200
	for i := 0; i < len(names); i += chunk {
		j := min(i+chunk, len(names))
		p.nsync++
		marker := fmt.Sprintf("vpsync%d", p.nsync)
		p.Send("(get-value (" + strings.Join(names[i:j], " ") + "))")
		p.Send(fmt.Sprintf("(echo \"%s\")", marker))
		var sb strings.Builder
		for {
			line, err := p.readLine()
			if err != nil {
				return nil, err
			}
			if strings.Contains(line, marker) {
				break
			}
			sb.WriteString(line)
			sb.WriteByte(' ')
		}
		txt := sb.String()
		if strings.Contains(txt, "(error") {
			return nil, fmt.Errorf("get-value: %s", txt)
		}
		if err := parseValues(txt, res); err != nil {
			return nil, err
		}
	}
	return res, nil
}

// parseValues parses "((a #x00..) (b true) (c (_ bv5 64)))".
func parseValues(s string, out map[string]uint64) error {
	toks := tokenize(s)
	// expect ( ( name value ) ... )
	i := 0
	if len(toks) == 0 || toks[0] != "(" {
		return fmt.Errorf("bad get-value output: %q", s)
	}
	i++
	for i < len(toks) && toks[i] == "(" {
		i++
		name := toks[i]
		i++
		var v uint64
		switch {
		case toks[i] == "(":
			// (_ bvN w)
			if toks[i+1] != "_" || !strings.HasPrefix(toks[i+2], "bv") {
				return fmt.Errorf("bad value for %s in %q", name, s)
			}
			n, err := strconv.ParseUint(toks[i+2][2:], 10, 64)
			if err != nil {
				return err
			}
			v = n
			i += 5
		case toks[i] == "true":
			v = 1
			i++
		case toks[i] == "false":
			v = 0
			i++
		case strings.HasPrefix(toks[i], "#x"):
			n, err := strconv.ParseUint(toks[i][2:], 16, 64)
			if err != nil {
				return err
			}
			v = n
			i++
		case strings.HasPrefix(toks[i], "#b"):
			n, err := strconv.ParseUint(toks[i][2:], 2, 64)
			if err != nil {
				return err
			}
			v = n
			i++
		default:
			return fmt.Errorf("bad value token %q for %s", toks[i], name)
		}
		if toks[i] != ")" {
			return fmt.Errorf("expected ) after %s", name)
		}
		i++
		out[name] = v
	}
	return nil
}

func tokenize(s string) []string {
	var toks []string
	cur := strings.Builder{}
	flush := func() {
		if cur.Len() > 0 {
			toks = append(toks, cur.String())
			cur.Reset()
		}
	}
	for _, r := range s {
		switch r {
		case '(', ')':
			flush()
			toks = append(toks, string(r))
		case ' ', '\t', '\n', '\r':
			flush()
		default:
			cur.WriteRune(r)
		}
	}
	flush()
	return toks
}
