//go:build verif

package confchange

import (
	"go.etcd.io/raft/v3/quorum"
	pb "go.etcd.io/raft/v3/raftpb"
	"go.etcd.io/raft/v3/tracker"
)

// ---------------------------------------------------------------------------
// C13: configuration algebra. Member classes per id:
//   0 absent, 1 incoming voter, 2 incoming+outgoing voter, 3 outgoing voter
//   only, 4 learner, 5 outgoing voter staged as learner (LearnersNext).
// ---------------------------------------------------------------------------

const (
	vpAbsent = iota
	vpIn
	vpInOut
	vpOut
	vpLearner
	vpOutNext
)

type vpPr struct {
	match, next uint64
	active      bool
}

// vpAbs is the abstract configuration: class and progress facts per id.
type vpAbs struct {
	class     map[uint64]int
	pr        map[uint64]vpPr
	autoLeave bool
}

func (a vpAbs) joint() bool {
	for _, c := range a.class {
		if c == vpInOut || c == vpOut || c == vpOutNext {
			return true
		}
	}
	return false
}

func (a vpAbs) incoming() int {
	n := 0
	for _, c := range a.class {
		if c == vpIn || c == vpInOut {
			n++
		}
	}
	return n
}

func (a vpAbs) clone() vpAbs {
	b := vpAbs{class: map[uint64]int{}, pr: map[uint64]vpPr{}, autoLeave: a.autoLeave}
	for k, v := range a.class {
		b.class[k] = v
	}
	for k, v := range a.pr {
		b.pr[k] = v
	}
	return b
}

// id universe 1..vpU for pre-states; vpU+1 and a symbolic id appear in changes.
// Set by each harness entry point before anything else.
var vpU uint64 = 3

// vpNonJointOnly restricts generated pre-states to classes absent/in/learner.
var vpNonJointOnly bool

// vpTracker builds an arbitrary configuration satisfying the C13 invariants.
// vpMaxBytes is the tracker's in-flight byte limit (symbolic, set per run).
var vpMaxBytes uint64

func vpTracker(allowEmpty bool) (tracker.ProgressTracker, vpAbs) {
	vpMaxBytes = vpU64()
	trk := tracker.MakeProgressTracker(2, vpMaxBytes)
	abs := vpAbs{class: map[uint64]int{}, pr: map[uint64]vpPr{}}
	if allowEmpty && vpChoose(2) == 1 {
		return trk, abs
	}
	for id := uint64(1); id <= vpU; id++ {
		var c int
		if vpNonJointOnly {
			c = []int{vpAbsent, vpIn, vpLearner}[vpChoose(3)]
		} else {
			c = vpChoose(6)
		}
		if c == vpAbsent {
			continue
		}
		abs.class[id] = c
		p := vpPr{match: vpU64(), next: vpU64(), active: vpBool()}
		vpAssume(p.match < p.next)
		abs.pr[id] = p
		trk.Progress[id] = &tracker.Progress{Match: p.match, Next: p.next, RecentActive: p.active, IsLearner: c == vpLearner, Inflights: tracker.NewInflights(2, vpMaxBytes)}
		add := func(m *map[uint64]struct{}) {
			if *m == nil {
				*m = map[uint64]struct{}{}
			}
			(*m)[id] = struct{}{}
		}
		switch c {
		case vpIn:
			trk.Voters[0][id] = struct{}{}
		case vpInOut:
			trk.Voters[0][id] = struct{}{}
			add((*map[uint64]struct{})(&trk.Voters[1]))
		case vpOut:
			add((*map[uint64]struct{})(&trk.Voters[1]))
		case vpLearner:
			add(&trk.Learners)
		case vpOutNext:
			add((*map[uint64]struct{})(&trk.Voters[1]))
			add(&trk.LearnersNext)
		}
	}
	if abs.incoming() == 0 {
		vpAssume(false)
	}
	if abs.joint() {
		abs.autoLeave = vpBool()
		trk.AutoLeave = abs.autoLeave
	}
	return trk, abs
}

func vpHas(m map[uint64]struct{}, id uint64) bool {
	_, ok := m[id]
	return ok
}

// vpClassOf reads the class of id from a real configuration; ok=false when the
// four sets are inconsistent for this id.
func vpClassOf(cfg tracker.Config, id uint64) (int, bool) {
	in, out := vpHas(cfg.Voters[0], id), vpHas(cfg.Voters[1], id)
	l, ln := vpHas(cfg.Learners, id), vpHas(cfg.LearnersNext, id)
	switch {
	case !in && !out && !l && !ln:
		return vpAbsent, true
	case in && !out && !l && !ln:
		return vpIn, true
	case in && out && !l && !ln:
		return vpInOut, true
	case !in && out && !l && !ln:
		return vpOut, true
	case !in && !out && l && !ln:
		return vpLearner, true
	case !in && out && !l && ln:
		return vpOutNext, true
	}
	return -1, false
}

// vpMatches asserts that (cfg, prs) is exactly the abstract configuration a,
// which includes the C13 invariants (CI): disjointness, LearnersNext within the
// outgoing voters, learner marks, progress keys = members, nil-when-not-joint.
func vpMatches(cfg tracker.Config, prs tracker.ProgressMap, a vpAbs, ids []uint64, label string) {
	n := 0
	for _, id := range ids {
		c, ok := vpClassOf(cfg, id)
		vpAssert(ok, label+"/sets-consistent")
		if !ok {
			return
		}
		vpAssert(c == a.class[id], label+"/class")
		pr := prs[id]
		vpAssert((pr != nil) == (c != vpAbsent), label+"/progress-iff-member")
		if pr == nil || c == vpAbsent {
			continue
		}
		n++
		vpAssert(pr.IsLearner == (c == vpLearner), label+"/learner-mark")
		want := a.pr[id]
		vpAssert(vpAnd(pr.Match == want.match, pr.Next == want.next, pr.RecentActive == want.active), label+"/progress-values")
		vpAssert(pr.Inflights != nil, label+"/inflights-present")
		if pr.Inflights != nil && want.match == 0 && pr.Inflights.Count() == 0 && label != "C13/roundtrip/config" {
			// the window of a (possibly new) member enforces the tracker's limits:
			// after one message of b bytes it is full iff the byte limit is reached
			b := vpU64()
			w := pr.Inflights.Clone()
			w.Add(1, b)
			vpAssert(w.Full() == vpAnd(vpMaxBytes != 0, b >= vpMaxBytes), label+"/inflights-carry-tracker-limits")
		}
	}
	vpAssert(len(prs) == n, label+"/no-extra-progress")
	members := func(m map[uint64]struct{}) int { return len(m) }
	total := members(cfg.Voters[0]) + members(cfg.Voters[1]) + members(cfg.Learners) + members(cfg.LearnersNext)
	cnt := 0
	for _, id := range ids {
		for _, m := range []map[uint64]struct{}{cfg.Voters[0], cfg.Voters[1], cfg.Learners, cfg.LearnersNext} {
			if vpHas(m, id) {
				cnt++
			}
		}
	}
	vpAssert(cnt == total, label+"/no-extra-ids")
	if len(cfg.Voters[1]) == 0 {
		vpAssert(cfg.Voters[1] == nil, label+"/outgoing-nil-when-not-joint")
		vpAssert(cfg.LearnersNext == nil, label+"/learnersnext-nil-when-not-joint")
		vpAssert(!cfg.AutoLeave, label+"/autoleave-only-joint")
	}
	vpAssert(cfg.AutoLeave == a.autoLeave, label+"/autoleave")
	vpAssert(len(cfg.Learners) > 0 || cfg.Learners == nil, label+"/learners-nil-when-empty")
}

// vpNodeID: 0, a member id, the fresh concrete id vpU+1, or any other id.
func vpNodeID() (uint64, bool) {
	w := vpChoose(int(vpU) + 3)
	switch {
	case uint64(w) <= vpU+1:
		return uint64(w), false
	}
	id := vpU64()
	vpAssume(id > vpU+1)
	return id, true
}

type vpChange struct {
	typ uint32
	id  uint64
}

func vpChanges(maxK int) ([]*pb.ConfChangeSingle, []vpChange, []uint64) {
	k := vpChoose(maxK + 1)
	var ccs []*pb.ConfChangeSingle
	var abs []vpChange
	ids := []uint64{}
	for id := uint64(1); id <= vpU+1; id++ {
		ids = append(ids, id)
	}
	for i := 0; i < k; i++ {
		t := uint32(vpChoose(5)) // 0..3 legal, 4 illegal
		id, sym := vpNodeID()
		if sym {
			// at most one symbolic id per sequence keeps the id list finite
			for _, c := range abs {
				if c.id > vpU+1 {
					vpAssume(id == c.id)
				}
			}
			found := false
			for _, x := range ids {
				if x > vpU+1 {
					found = true
				}
			}
			if !found {
				ids = append(ids, id)
			}
		}
		ccs = append(ccs, &pb.ConfChangeSingle{Type: new(pb.ConfChangeType(t)), NodeId: new(id)})
		abs = append(abs, vpChange{typ: t, id: id})
	}
	return ccs, abs, ids
}

// vpApplyAbs is the specification of Changer.apply on the abstract config.
func vpApplyAbs(a vpAbs, ch []vpChange, lastIndex uint64) (vpAbs, bool) {
	a = a.clone()
	fresh := vpPr{match: 0, next: max(lastIndex, 1), active: true}
	for _, c := range ch {
		if c.id == 0 {
			continue
		}
		cl := a.class[c.id]
		switch c.typ {
		case 0: // AddNode
			switch cl {
			case vpAbsent:
				a.class[c.id] = vpIn
				a.pr[c.id] = fresh
			case vpOut, vpOutNext:
				a.class[c.id] = vpInOut
			case vpLearner:
				a.class[c.id] = vpIn
			}
		case 3: // AddLearnerNode
			switch cl {
			case vpAbsent:
				a.class[c.id] = vpLearner
				a.pr[c.id] = fresh
			case vpIn:
				a.class[c.id] = vpLearner
			case vpInOut, vpOut:
				a.class[c.id] = vpOutNext
			}
		case 1: // RemoveNode
			switch cl {
			case vpIn, vpLearner:
				delete(a.class, c.id)
				delete(a.pr, c.id)
			case vpInOut, vpOutNext:
				a.class[c.id] = vpOut
			}
		case 2: // UpdateNode
		default:
			return a, false
		}
	}
	if a.incoming() == 0 {
		return a, false
	}
	return a, true
}

func vpSnapshotInput(trk tracker.ProgressTracker, a vpAbs, ids []uint64, label string) {
	// the input tracker must be untouched by any operation, accepted or not
	vpMatches(trk.Config, trk.Progress, a, ids, label)
}

func vpSimple(maxK int, u uint64, nonJoint bool) {
	vpU, vpNonJointOnly = u, nonJoint
	trk, a := vpTracker(true)
	ccs, ch, ids := vpChanges(maxK)
	last := vpU64()
	c := Changer{Tracker: trk, LastIndex: last}
	cfg, prs, err := c.Simple(ccs...)
	want, ok := vpApplyAbs(a, ch, last)
	if a.joint() {
		ok = false
	}
	if ok {
		// at most one voter may change
		diff := 0
		for _, id := range ids {
			was := a.class[id] == vpIn || a.class[id] == vpInOut
			is := want.class[id] == vpIn || want.class[id] == vpInOut
			if was != is {
				diff++
			}
		}
		if diff > 1 {
			ok = false
		}
	}
	vpObserve("simple", vpB2U(err == nil))
	vpAssert((err == nil) == ok, "C13/simple/error-iff-spec")
	if err == nil && ok {
		vpMatches(cfg, prs, want, ids, "C13/simple/post")
		vpAssert(len(cfg.Voters[1]) == 0, "C13/simple/not-joint")
	}
	vpSnapshotInput(trk, a, ids, "C13/simple/input-untouched")
}

func vpEnterJoint(maxK int, u uint64, nonJoint bool) {
	vpU, vpNonJointOnly = u, nonJoint
	trk, a := vpTracker(true)
	ccs, ch, ids := vpChanges(maxK)
	last := vpU64()
	auto := vpBool()
	c := Changer{Tracker: trk, LastIndex: last}
	cfg, prs, err := c.EnterJoint(auto, ccs...)
	// spec: copy incoming to outgoing, then apply
	ok := !a.joint() && a.incoming() > 0
	var want vpAbs
	if ok {
		j := a.clone()
		for id, cl := range j.class {
			if cl == vpIn {
				j.class[id] = vpInOut
			}
		}
		want, ok = vpApplyAbs(j, ch, last)
		want.autoLeave = auto
	}
	vpObserve("enterjoint", vpB2U(err == nil))
	vpAssert((err == nil) == ok, "C13/enterjoint/error-iff-spec")
	if err == nil && ok {
		vpMatches(cfg, prs, want, ids, "C13/enterjoint/post")
		// the outgoing half is exactly the old incoming half
		for _, id := range ids {
			was := a.class[id] == vpIn
			vpAssert(vpHas(cfg.Voters[1], id) == was, "C13/enterjoint/outgoing-is-old-incoming")
		}
	}
	vpSnapshotInput(trk, a, ids, "C13/enterjoint/input-untouched")
}

func vpLeaveJoint() {
	vpU, vpNonJointOnly = 3, false
	trk, a := vpTracker(true)
	ids := []uint64{1, 2, 3}
	c := Changer{Tracker: trk, LastIndex: vpU64()}
	cfg, prs, err := c.LeaveJoint()
	ok := a.joint()
	want := a.clone()
	if ok {
		for id, cl := range a.class {
			switch cl {
			case vpInOut:
				want.class[id] = vpIn
			case vpOut:
				delete(want.class, id)
				delete(want.pr, id)
			case vpOutNext:
				want.class[id] = vpLearner
			}
		}
		want.autoLeave = false
	}
	vpObserve("leavejoint", vpB2U(err == nil))
	vpAssert((err == nil) == ok, "C13/leavejoint/error-iff-not-joint")
	if err == nil && ok {
		vpMatches(cfg, prs, want, ids, "C13/leavejoint/post")
	}
	vpSnapshotInput(trk, a, ids, "C13/leavejoint/input-untouched")
}

// vpRoundTrip: ConfState -> Restore reproduces the configuration.
func vpRoundTrip() {
	vpU, vpNonJointOnly = 3, false
	trk, a := vpTracker(false)
	ids := []uint64{1, 2, 3}
	cs := trk.ConfState()
	last := vpU64()
	fresh := tracker.MakeProgressTracker(2, 0)
	cfg, prs, err := Restore(Changer{Tracker: fresh, LastIndex: last}, cs)
	vpObserve("restore", vpB2U(err == nil))
	vpAssert(err == nil, "C13/roundtrip/no-error")
	if err != nil {
		return
	}
	// same sets, fresh progress
	want := a.clone()
	for id := range want.pr {
		want.pr[id] = vpPr{match: 0, next: max(last, 1), active: true}
	}
	// Restore's joint step counts the added incoming voters from LastIndex too
	vpMatches(cfg, prs, want, ids, "C13/roundtrip/config")
	nt := tracker.MakeProgressTracker(2, 0)
	nt.Config = cfg
	nt.Progress = prs
	cs2 := nt.ConfState()
	vpAssert(cs.Equivalent(cs2) == nil, "C13/roundtrip/confstate-equivalent")
}

// all six classes over ids 1..3, one change
func vpH_c_Simple_k1()     { vpSimple(1, 3, false) }
func vpH_c_EnterJoint_k1() { vpEnterJoint(1, 3, false) }

// non-joint pre-states over ids 1..2, up to two changes
func vpH_c_Simple_k2u2()     { vpSimple(2, 2, true) }
func vpH_c_EnterJoint_k2u2() { vpEnterJoint(2, 2, true) }

// non-joint pre-states over ids 1..3, up to two changes (thorough)
func vpH_c_Simple_k2u3()     { vpSimple(2, 3, true) }
func vpH_c_EnterJoint_k2u3() { vpEnterJoint(2, 3, true) }

// non-joint pre-states over ids 1..2, up to three changes (thorough)
func vpH_c_Simple_k3u2()     { vpSimple(3, 2, true) }
func vpH_c_EnterJoint_k3u2() { vpEnterJoint(3, 2, true) }
func vpH_c_LeaveJoint()   { vpLeaveJoint() }
func vpH_c_RoundTrip()    { vpRoundTrip() }

var _ = quorum.MajorityConfig{}
