//go:build verif

package tracker

import (
	"go.etcd.io/raft/v3/quorum"
)

const vpMaxSize = uint64(1) << 40

// ---------------------------------------------------------------------------
// C16-L3: Inflights refines a bounded FIFO of (index, bytes)
// ---------------------------------------------------------------------------

type vpFifo struct {
	idx, by []uint64
}

// vpRing builds an arbitrary Inflights satisfying the representation
// invariant I-infl: shape (size, buffer length, start, count) is chosen,
// contents are symbolic.
func vpRing(maxSize int) (*Inflights, vpFifo) {
	size := 1 + vpChoose(maxSize)
	bl := vpChoose(size + 1)
	start := 0
	if bl > 0 {
		start = vpChoose(bl)
	}
	count := vpChoose(size + 1)
	// shape validity
	if count > bl {
		vpAssume(false)
	}
	if bl < size && start+count > bl {
		vpAssume(false)
	}
	if count == 0 && start != 0 {
		vpAssume(false) // FreeLE/reset normalise an empty ring to start 0
	}
	in := &Inflights{size: size, maxBytes: vpU64(), buffer: make([]inflight, bl), start: start, count: count}
	for i := range in.buffer {
		in.buffer[i] = inflight{index: vpU64(), bytes: vpU64()}
	}
	var f vpFifo
	var sum, prev uint64
	for p := 0; p < count; p++ {
		slot := start + p
		if slot >= size {
			slot -= size
		}
		e := in.buffer[slot]
		vpAssume(vpAnd(e.bytes <= vpMaxSize, vpOr(p == 0, e.index > prev)))
		f.idx = append(f.idx, e.index)
		f.by = append(f.by, e.bytes)
		sum += e.bytes
		prev = e.index
	}
	in.bytes = sum
	return in, f
}

// vpRingIs asserts that in represents exactly the FIFO f and satisfies I-infl.
func vpRingIs(in *Inflights, f vpFifo, label string) {
	vpAssert(in.count == len(f.idx), label+"/count")
	if in.count != len(f.idx) {
		return
	}
	vpAssert(vpAnd(in.start >= 0, in.start < max(in.size, 1), in.count <= in.size, len(in.buffer) <= in.size), label+"/shape")
	vpAssert(vpOr(len(in.buffer) == in.size, in.start+in.count <= len(in.buffer)), label+"/no-wrap-before-grown")
	var sum uint64
	for p := 0; p < in.count; p++ {
		slot := in.start + p
		if slot >= in.size {
			slot -= in.size
		}
		if slot >= len(in.buffer) {
			vpAssert(false, label+"/slot-in-buffer")
			return
		}
		vpAssert(vpAnd(in.buffer[slot].index == f.idx[p], in.buffer[slot].bytes == f.by[p]), label+"/element")
		sum += f.by[p]
	}
	vpAssert(in.bytes == sum, label+"/bytes")
	vpAssert(vpImplies(in.count == 0, in.start == 0), label+"/empty-normalised")
}

func vpFullSpec(in *Inflights, f vpFifo) bool {
	var sum uint64
	for _, b := range f.by {
		sum += b
	}
	return vpOr(len(f.idx) == in.size, vpAnd(in.maxBytes != 0, sum >= in.maxBytes))
}

func vpInflightsAdd(maxSize int) {
	in, f := vpRing(maxSize)
	full := in.Full()
	vpAssert(full == vpFullSpec(in, f), "C16/L3/full-iff")
	vpAssert(in.Count() == len(f.idx), "C16/L3/count")
	if full {
		return // Add on a full window is the documented panic
	}
	idx, by := vpU64(), vpU64()
	vpAssume(by <= vpMaxSize)
	if n := len(f.idx); n > 0 {
		vpAssume(idx > f.idx[n-1])
	}
	in.Add(idx, by)
	f.idx = append(f.idx, idx)
	f.by = append(f.by, by)
	vpObserve("add", uint64(in.count), in.bytes, uint64(in.start))
	vpRingIs(in, f, "C16/L3/add")
	vpAssert(in.count <= in.size, "C16/L3/never-exceeds-size")
}

func vpInflightsFree(maxSize int) {
	in, f := vpRing(maxSize)
	to := vpU64()
	in.FreeLE(to)
	// spec: drop every element with index <= to (indexes are increasing)
	var g vpFifo
	for p := range f.idx {
		if f.idx[p] > to {
			g.idx = append(g.idx, f.idx[p])
			g.by = append(g.by, f.by[p])
		}
	}
	vpObserve("free", uint64(in.count), in.bytes, uint64(in.start))
	vpRingIs(in, g, "C16/L3/free")
}

func vpInflightsMisc(maxSize int) {
	in, f := vpRing(maxSize)
	cl := in.Clone()
	vpRingIs(cl, f, "C16/L3/clone")
	// mutation of the clone does not affect the original
	if !cl.Full() {
		n := vpU64()
		cl.Add(n, 0)
	}
	cl.FreeLE(vpU64())
	vpRingIs(in, f, "C16/L3/clone-independent")
	in.reset()
	vpRingIs(in, vpFifo{}, "C16/L3/reset")
}

func vpH_t_InflightsAdd_3()  { vpInflightsAdd(3) }
func vpH_t_InflightsFree_3() { vpInflightsFree(3) }
func vpH_t_InflightsMisc_3() { vpInflightsMisc(3) }
func vpH_t_InflightsAdd_4()  { vpInflightsAdd(4) }
func vpH_t_InflightsFree_4() { vpInflightsFree(4) }
func vpH_t_InflightsMisc_4() { vpInflightsMisc(4) }

// ---------------------------------------------------------------------------
// Progress transitions keep Match < Next and never lower Match
// ---------------------------------------------------------------------------

func vpProgress() *Progress {
	in, _ := vpRing(2)
	st := vpU64()
	pr := &Progress{Match: vpU64(), Next: vpU64(), sentCommit: vpU64(), State: StateType(st), PendingSnapshot: vpU64(),
		RecentActive: vpBool(), MsgAppFlowPaused: vpBool(), Inflights: in, IsLearner: vpBool()}
	vpAssume(vpAnd(st <= 2, pr.Match < pr.Next, pr.Next <= vpMaxSize, pr.PendingSnapshot <= vpMaxSize,
		vpImplies(pr.State != StateReplicate, in.count == 0),
		vpImplies(pr.State != StateSnapshot, pr.PendingSnapshot == 0)))
	return pr
}

func vpProgressPost(pr *Progress, preMatch uint64, label string) {
	vpAssert(pr.Match < pr.Next, label+"/match-lt-next")
	vpAssert(pr.Match >= preMatch, label+"/match-monotone")
	vpAssert(vpImplies(pr.State != StateReplicate, pr.Inflights.count == 0), label+"/window-empty-unless-replicate")
	vpAssert(vpImplies(pr.State != StateSnapshot, pr.PendingSnapshot == 0), label+"/pending-only-in-snapshot")
}

func vpH_t_ProgressOps() {
	pr := vpProgress()
	pre := *pr
	preCount := pr.Inflights.count
	switch vpChoose(7) {
	case 0:
		n := vpU64()
		ok := pr.MaybeUpdate(n)
		vpAssert(ok == (n > pre.Match), "I-prog/update/returns")
		vpAssert(vpImplies(ok, vpAnd(pr.Match == n, pr.Next >= n+1, !pr.MsgAppFlowPaused)), "I-prog/update/effect")
		vpAssert(vpImplies(!ok, vpAnd(pr.Match == pre.Match, pr.Next == pre.Next)), "I-prog/update/noop")
		vpAssume(n < vpMaxSize)
		vpProgressPost(pr, pre.Match, "I-prog/update")
	case 1:
		rej, hint := vpU64(), vpU64()
		vpAssume(hint <= vpMaxSize)
		ok := pr.MaybeDecrTo(rej, hint)
		vpAssert(vpImplies(ok, pr.Next <= max(pre.Next, pre.Match+1)), "I-prog/decr/never-raises-next")
		vpAssert(vpImplies(!ok, vpAnd(pr.Next == pre.Next, pr.Match == pre.Match)), "I-prog/decr/noop")
		vpAssert(vpImplies(vpAnd(ok, pre.State != StateReplicate), vpAnd(pre.Next-1 == rej, !pr.MsgAppFlowPaused)), "I-prog/decr/only-matching-rejection")
		vpAssert(vpImplies(vpAnd(ok, pre.State == StateReplicate), vpAnd(rej > pre.Match, pr.Next == pre.Match+1)), "I-prog/decr/replicate")
		vpAssert(pr.sentCommit <= max(pre.sentCommit, pr.Next-1), "I-prog/decr/sent-commit-clamped")
		vpProgressPost(pr, pre.Match, "I-prog/decr")
	case 2:
		pr.BecomeProbe()
		vpAssert(pr.State == StateProbe, "I-prog/probe/state")
		vpAssert(vpImplies(pre.State == StateSnapshot, pr.Next == max(pre.Match+1, pre.PendingSnapshot+1)), "I-prog/probe/after-snapshot")
		vpAssert(vpImplies(pre.State != StateSnapshot, pr.Next == pre.Match+1), "I-prog/probe/next")
		vpProgressPost(pr, pre.Match, "I-prog/probe")
	case 3:
		pr.BecomeReplicate()
		vpAssert(vpAnd(pr.State == StateReplicate, pr.Next == pre.Match+1, !pr.MsgAppFlowPaused), "I-prog/replicate")
		vpProgressPost(pr, pre.Match, "I-prog/replicate")
	case 4:
		si := vpU64()
		vpAssume(si <= vpMaxSize)
		pr.BecomeSnapshot(si)
		vpAssert(vpAnd(pr.State == StateSnapshot, pr.PendingSnapshot == si, pr.Next == si+1, pr.IsPaused()), "I-prog/snapshot")
	case 5:
		n := vpChoose(3)
		by := vpU64()
		vpAssume(by <= vpMaxSize)
		if pr.State == StateSnapshot {
			return // documented panic: no appends are sent in StateSnapshot
		}
		if pr.State == StateReplicate && n > 0 && pr.Inflights.Full() {
			return // maybeSendAppend never sends entries into a full window
		}
		pr.SentEntries(n, by)
		vpAssert(vpImplies(pre.State == StateReplicate, pr.Next == pre.Next+uint64(n)), "C16/L4/sent-advances-next")
		vpAssert(vpImplies(vpAnd(pre.State == StateReplicate, n > 0), pr.Inflights.count == preCount+1), "C16/L4/sent-occupies-slot")
		vpAssert(vpImplies(pre.State == StateReplicate, pr.MsgAppFlowPaused == pr.Inflights.Full()), "C16/L4/paused-iff-full")
		if pre.State == StateReplicate && n > 0 && pr.Inflights.count == preCount+1 {
			// the slot is released by the acknowledgement of the message's last entry, not an earlier one
			in := pr.Inflights
			last := in.buffer[(in.start+in.count-1)%in.size]
			vpAssert(vpAnd(last.index == pre.Next+uint64(n)-1, last.bytes == by), "C16/L4/slot-records-last-entry-and-bytes")
		}
		vpAssert(vpImplies(vpAnd(pre.State == StateProbe, n > 0), pr.MsgAppFlowPaused), "C16/L4/probe-pauses-after-one")
		vpAssert(vpImplies(pre.State == StateProbe, pr.Next == pre.Next), "C16/L4/probe-keeps-next")
		vpProgressPost(pr, pre.Match, "I-prog/sent")
	case 6:
		paused := pr.IsPaused()
		vpAssert(paused == vpOr(pr.State == StateSnapshot, pr.MsgAppFlowPaused), "C16/L4/is-paused")
	}
}

// ---------------------------------------------------------------------------
// ProgressTracker: Committed, QuorumActive, TallyVotes, Visit order
// ---------------------------------------------------------------------------

func vpTrackerOver(n int) (*ProgressTracker, [][]uint64) {
	p := MakeProgressTracker(2, 0)
	halves := make([][]uint64, 2)
	for h := 0; h < 2; h++ {
		for id := uint64(1); id <= uint64(n); id++ {
			if vpChoose(2) == 1 {
				if p.Voters[h] == nil {
					p.Voters[h] = quorum.MajorityConfig{}
				}
				p.Voters[h][id] = struct{}{}
				halves[h] = append(halves[h], id)
			}
		}
	}
	if len(halves[0]) == 0 {
		vpAssume(false)
	}
	return &p, halves
}

func vpH_t_TrackerCommitted_3() {
	p, halves := vpTrackerOver(3)
	match := make([]uint64, 5)
	for id := uint64(1); id <= 4; id++ {
		// progress exists for every voter; id 4 is a non-voter with progress
		in := false
		for _, h := range halves {
			for _, x := range h {
				if x == id {
					in = true
				}
			}
		}
		if in || id == 4 {
			match[id] = vpU64()
			p.Progress[id] = &Progress{Match: match[id], Next: match[id] + 1, Inflights: NewInflights(2, 0)}
		}
	}
	got := p.Committed()
	vpObserve("committed", got)
	for _, h := range halves {
		if len(h) == 0 {
			continue
		}
		var cnt uint64
		for _, id := range h {
			cnt += vpB2U(match[id] >= got)
		}
		vpAssert(cnt >= uint64(len(h)/2+1), "Q1/tracker-committed-quorum-backed")
	}
	// maximal: no larger Match value is backed by both halves
	for id := uint64(1); id <= 3; id++ {
		v := match[id]
		ok := true
		for _, h := range halves {
			if len(h) == 0 {
				continue
			}
			var cnt uint64
			for _, x := range h {
				cnt += vpB2U(match[x] >= v)
			}
			ok = vpAnd(ok, cnt >= uint64(len(h)/2+1))
		}
		vpAssert(vpImplies(ok, v <= got), "Q1/tracker-committed-maximal")
	}
}

func vpH_t_QuorumActive_3() {
	p, halves := vpTrackerOver(3)
	active := make([]bool, 5)
	for id := uint64(1); id <= 4; id++ {
		in := false
		for _, h := range halves {
			for _, x := range h {
				if x == id {
					in = true
				}
			}
		}
		if in || id == 4 {
			active[id] = vpBool()
			p.Progress[id] = &Progress{RecentActive: active[id], Next: 1, Inflights: NewInflights(2, 0), IsLearner: id == 4}
		}
	}
	if p.Progress[4] != nil {
		p.Learners = map[uint64]struct{}{4: {}}
	}
	got := p.QuorumActive()
	want := true
	for _, h := range halves {
		if len(h) == 0 {
			continue
		}
		var cnt uint64
		for _, id := range h {
			cnt += vpB2U(active[id])
		}
		want = vpAnd(want, cnt >= uint64(len(h)/2+1))
	}
	vpObserve("active", vpB2U(got))
	vpAssert(got == want, "K4/quorum-active-iff-joint-majority-active")
}

func vpH_t_VisitOrder_9() {
	p := MakeProgressTracker(2, 0)
	var want []uint64
	for id := uint64(1); id <= 9; id++ {
		if vpChoose(2) == 1 {
			p.Progress[id] = &Progress{Next: 1, Inflights: NewInflights(1, 0)}
			want = append(want, id)
		}
	}
	var got []uint64
	p.Visit(func(id uint64, pr *Progress) {
		vpAssert(pr == p.Progress[id], "T1/visit-passes-own-progress")
		got = append(got, id)
	})
	vpAssert(len(got) == len(want), "T1/visit-visits-all")
	if len(got) != len(want) {
		return
	}
	for i := range got {
		vpAssert(got[i] == want[i], "T1/visit-ascending")
	}
}
