//go:build verif

package quorum

import "math"

// ---- C12: quorum arithmetic, decided directly against a specification formula ----

// vpConfig builds a MajorityConfig over ids 1..n: the size k is chosen, the
// members are 1..k (the functions under test are symmetric in the ids; the
// iteration order over the map is varied by the engine's order policies).
func vpMajority(n int) (MajorityConfig, []uint64) {
	k := vpChoose(n + 1)
	c := MajorityConfig{}
	var ids []uint64
	for id := uint64(1); id <= uint64(k); id++ {
		c[id] = struct{}{}
		ids = append(ids, id)
	}
	return c, ids
}

// vpSubset builds a MajorityConfig with arbitrary membership over 1..n.
func vpSubset(n int) (MajorityConfig, []uint64) {
	c := MajorityConfig{}
	var ids []uint64
	for id := uint64(1); id <= uint64(n); id++ {
		if vpChoose(2) == 1 {
			c[id] = struct{}{}
			ids = append(ids, id)
		}
	}
	return c, ids
}

type vpAcks struct {
	l       mapAckIndexer
	val     []uint64 // effective value per id (0 when missing)
	present []bool
}

// vpIndexer builds an indexer over ids 1..n+1 (id n+1 is never a member of the
// configurations built above when they use at most n ids).
func vpIndexer(n int) vpAcks {
	a := vpAcks{l: mapAckIndexer{}, val: make([]uint64, n+2), present: make([]bool, n+2)}
	for id := 1; id <= n+1; id++ {
		if vpChoose(2) == 1 {
			v := vpU64()
			a.l[uint64(id)] = Index(v)
			a.val[id] = v
			a.present[id] = true
		}
	}
	return a
}

func vpCountGE(ids []uint64, a vpAcks, v uint64) uint64 {
	var n uint64
	for _, id := range ids {
		n += vpB2U(a.val[id] >= v)
	}
	return n
}

// vpSpecCommitted asserts that got is the largest index acknowledged by a
// strict majority of ids (missing = 0, empty = MaxUint64).
func vpSpecCommitted(ids []uint64, a vpAcks, got uint64, label string) {
	if len(ids) == 0 {
		vpAssert(got == math.MaxUint64, label+"/empty")
		return
	}
	q := uint64(len(ids)/2 + 1)
	vpAssert(vpCountGE(ids, a, got) >= q, label+"/quorum-backed")
	for _, id := range ids {
		v := a.val[id]
		vpAssert(vpImplies(vpCountGE(ids, a, v) >= q, v <= got), label+"/maximal")
	}
	// got is an acknowledged value or zero
	isVal := got == 0
	for _, id := range ids {
		isVal = vpOr(isVal, got == a.val[id])
	}
	vpAssert(isVal, label+"/is-acked-value")
}

func vpMajorityCommitted(n int, subset bool) {
	var c MajorityConfig
	var ids []uint64
	if subset {
		c, ids = vpSubset(n)
	} else {
		c, ids = vpMajority(n)
	}
	a := vpIndexer(n)
	got := uint64(c.CommittedIndex(a.l))
	vpObserve("committed", got)
	vpSpecCommitted(ids, a, got, "C12/maj-commit")
}

func vpH_q_MajCommit_sub4() { vpMajorityCommitted(4, true) }
func vpH_q_MajCommit_5()    { vpMajorityCommitted(5, false) }
func vpH_q_MajCommit_9()    { vpMajorityCommitted(9, false) }

// exactly eight voters (the smallest size that leaves the stack buffer of
// CommittedIndex), every one of them with an acknowledged index except
// possibly the last; acknowledged indexes range over 0..7 only
func vpH_q_MajCommit_8() {
	c := MajorityConfig{}
	var ids []uint64
	a := vpAcks{l: mapAckIndexer{}, val: make([]uint64, 10), present: make([]bool, 10)}
	for id := uint64(1); id <= 8; id++ {
		c[id] = struct{}{}
		ids = append(ids, id)
		if id < 8 || vpChoose(2) == 1 {
			v := vpU64()
			vpAssume(v < 8) // (fully symbolic 64-bit values at this size are beyond the solver: 60 s per query)
			a.l[id] = Index(v)
			a.val[id] = v
			a.present[id] = true
		}
	}
	got := uint64(c.CommittedIndex(a.l))
	vpObserve("committed", got)
	vpSpecCommitted(ids, a, got, "C12/maj-commit")
}

func vpMinU(a, b uint64) uint64 { return vpIte(a < b, a, b) }

func vpJointCommitted(n int) {
	c0, ids0 := vpSubset(n)
	c1, ids1 := vpSubset(n)
	a := vpIndexer(n)
	jc := JointConfig{c0, c1}
	got := uint64(jc.CommittedIndex(a.l))
	vpObserve("joint-committed", got)
	// spec: min of the two halves, each per the majority spec
	g0 := uint64(c0.CommittedIndex(a.l))
	g1 := uint64(c1.CommittedIndex(a.l))
	vpSpecCommitted(ids0, a, g0, "C12/joint-commit-half0")
	vpSpecCommitted(ids1, a, g1, "C12/joint-commit-half1")
	vpAssert(got == vpMinU(g0, g1), "C12/joint-commit-min")
	// direct statement: a joint quorum backs got, unless both halves are empty
	if len(ids0) > 0 {
		vpAssert(vpCountGE(ids0, a, got) >= uint64(len(ids0)/2+1), "C12/joint-commit-backed0")
	}
	if len(ids1) > 0 {
		vpAssert(vpCountGE(ids1, a, got) >= uint64(len(ids1)/2+1), "C12/joint-commit-backed1")
	}
}

func vpH_q_JointCommit_3() { vpJointCommitted(3) }
func vpH_q_JointCommit_4() { vpJointCommitted(4) }

type vpVotes struct {
	m       map[uint64]bool
	yes     []bool
	present []bool
}

func vpVoteMap(n int) vpVotes {
	v := vpVotes{m: map[uint64]bool{}, yes: make([]bool, n+2), present: make([]bool, n+2)}
	for id := 1; id <= n+1; id++ {
		if vpChoose(2) == 1 {
			b := vpBool()
			v.m[uint64(id)] = b
			v.yes[id] = b
			v.present[id] = true
		}
	}
	return v
}

func vpSpecVote(ids []uint64, v vpVotes) (won, lost bool) {
	if len(ids) == 0 {
		return true, false
	}
	var yes, missing uint64
	for _, id := range ids {
		if v.present[id] {
			yes += vpB2U(v.yes[id])
		} else {
			missing++
		}
	}
	q := uint64(len(ids)/2 + 1)
	return yes >= q, yes+missing < q
}

func vpResultIs(r VoteResult, won, lost bool) bool {
	return vpAnd(vpImplies(won, r == VoteWon), vpImplies(lost, r == VoteLost),
		vpImplies(vpAnd(!won, !lost), r == VotePending),
		vpOr(r == VoteWon, r == VoteLost, r == VotePending))
}

func vpMajorityVote(n int, subset bool) {
	var c MajorityConfig
	var ids []uint64
	if subset {
		c, ids = vpSubset(n)
	} else {
		c, ids = vpMajority(n)
	}
	v := vpVoteMap(n)
	r := c.VoteResult(v.m)
	vpObserve("vote", uint64(r))
	won, lost := vpSpecVote(ids, v)
	vpAssert(vpNot(vpAnd(won, lost)), "C12/vote-spec-consistent")
	vpAssert(vpResultIs(r, won, lost), "C12/maj-vote")
}

func vpH_q_MajVote_sub4() { vpMajorityVote(4, true) }
func vpH_q_MajVote_5()    { vpMajorityVote(5, false) }
func vpH_q_MajVote_9()    { vpMajorityVote(9, false) }

func vpJointVote(n int) {
	c0, ids0 := vpSubset(n)
	c1, ids1 := vpSubset(n)
	v := vpVoteMap(n)
	r := JointConfig{c0, c1}.VoteResult(v.m)
	vpObserve("joint-vote", uint64(r))
	w0, l0 := vpSpecVote(ids0, v)
	w1, l1 := vpSpecVote(ids1, v)
	won := vpAnd(w0, w1)
	lost := vpOr(l0, l1)
	vpAssert(vpResultIs(r, won, lost), "C12/joint-vote")
}

func vpH_q_JointVote_3() { vpJointVote(3) }
func vpH_q_JointVote_4() { vpJointVote(4) }
