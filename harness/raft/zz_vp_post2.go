//go:build verif

package raft

import (
	"encoding/binary"

	pb "go.etcd.io/raft/v3/raftpb"
	"go.etcd.io/raft/v3/tracker"
)

// ---------------------------------------------------------------------------
// C11: ReadIndex (ReadOnlySafe)
// ---------------------------------------------------------------------------

type vpReadPre struct {
	acks      [5]uint64
	hasAck    [5]bool
	committed uint64
	inTerm    bool // committed an entry of its own term
}

func vpReadRecord(r *raft) vpReadPre {
	p := vpReadPre{committed: r.raftLog.committed}
	for id := uint64(1); id <= 4; id++ {
		if a, ok := r.readOnly.acks[id]; ok {
			p.acks[id] = a
			p.hasAck[id] = true
		}
	}
	v := vpViewOf(r.raftLog)
	p.inTerm = v.termAt(v.committed) == r.Term
	return p
}

// vpReadOutputs collects the answers produced by a step: (index, context blob, to).
type vpReadOut struct {
	index uint64
	blob  uint64
	dlen  uint64
	to    uint64
	local bool
}

func vpReadOutputs(r *raft, pre vpRec, p2 vpPre2) []vpReadOut {
	var out []vpReadOut
	for _, rs := range r.readStates[p2.nReadStates:] {
		out = append(out, vpReadOut{index: rs.Index, blob: vpBlobID(rs.RequestCtx), dlen: uint64(len(rs.RequestCtx)), local: true})
	}
	for _, x := range r.msgs[pre.nmsgs:] {
		if x.GetType() == pb.MsgReadIndexResp {
			o := vpReadOut{index: x.GetIndex(), to: x.GetTo()}
			if len(x.GetEntries()) == 1 {
				o.blob = vpBlobID(x.GetEntries()[0].GetData())
				o.dlen = uint64(len(x.GetEntries()[0].GetData()))
			}
			out = append(out, o)
		}
	}
	return out
}

func vpPostReadIndexLeader(r *raft, pre vpRec, p2 vpPre2, rp vpReadPre, m *pb.Message) {
	if pre.state != StateLeader || r.state != StateLeader {
		return
	}
	out := vpReadOutputs(r, pre, p2)
	ro := r.readOnly
	singleton := len(r.trk.Voters[0]) == 1 && len(r.trk.Voters[1]) == 0 // (not trk.IsSingleton(): the oracle does not trust it)
	local := vpOr(m.GetFrom() == None, m.GetFrom() == r.id)
	reqBlob := vpBlobID(m.GetEntries()[0].GetData())
	if ro.option != ReadOnlySafe {
		return // lease-based reads are outside C11
	}
	_, selfVoter := r.trk.Voters[0][r.id]
	selfSole := singleton && selfVoter
	// R2(b): answering without a quorum round is only sound when the sole voter
	// is this node and it has committed an entry of its own term
	if len(out) > 0 {
		vpAssert(selfSole, "R2b/singleton-shortcut-only-if-sole-voter-is-self")
		vpAssert(rp.inTerm, "R2b/singleton-shortcut-only-after-own-term-commit")
		for _, o := range out {
			vpAssert(vpAnd(o.index == rp.committed, o.blob == reqBlob), "R2/singleton-answer-is-commit-index")
		}
	}
	if selfSole {
		vpAssert(vpImplies(rp.inTerm, len(out) == 1), "R2/singleton-answers-at-once")
		vpAssert(vpImplies(!rp.inTerm, vpAnd(len(out) == 0, len(r.pendingReadIndexMessages) == p2.nPendReads+1)), "R1/postponed-until-own-term-commit")
		return
	}
	// R1 admission
	postponed := !rp.inTerm
	vpAssert(vpImplies(postponed, vpAnd(len(r.pendingReadIndexMessages) == p2.nPendReads+1, len(out) == 0, len(ro.unconfirmedReads) == p2.nUnconfirmed, len(r.msgs) == pre.nmsgs)), "R1/postponed-until-own-term-commit")
	admitted := len(ro.unconfirmedReads) == p2.nUnconfirmed+1
	vpAssert(vpImplies(!postponed, admitted), "R1/admitted-when-own-term-committed")
	if admitted {
		q := ro.unconfirmedReads[len(ro.unconfirmedReads)-1]
		vpAssert(vpAnd(q.index == rp.committed, q.req == m), "R1/queued-with-commit-index-at-receipt")
		pos := ro.confirmedReads + uint64(len(ro.unconfirmedReads))
		vpAssert(ro.confirmedReads == p2.confirmed, "R1/admission-confirms-nothing")
		a, ok := ro.acks[r.id]
		vpAssert(vpAnd(ok, a == pos), "R1/leader-acks-its-own-position")
		vpAssert(len(out) == 0, "R1/no-answer-before-quorum-round")
		// one heartbeat per peer carrying the position
		n := 0
		for _, x := range r.msgs[pre.nmsgs:] {
			if x.GetType() == pb.MsgHeartbeat {
				n++
				ctx := x.GetContext()
				vpAssert(len(ctx) == 8, "R1/heartbeat-carries-position")
				if len(ctx) == 8 {
					vpAssert(binary.LittleEndian.Uint64(ctx) == pos, "R1/heartbeat-carries-position")
				}
			}
		}
		peers := 0
		for id := uint64(1); id <= 4; id++ {
			if r.trk.Progress[id] != nil && id != r.id {
				peers++
			}
		}
		vpAssert(n == peers, "R1/heartbeat-to-every-peer")
	}
	_ = local
}

func vpPostHeartbeatRespLeader(r *raft, pre vpRec, p2 vpPre2, rp vpReadPre, m *pb.Message) {
	if pre.state != StateLeader || r.state != StateLeader || r.Term != m.GetTerm() {
		return
	}
	from := m.GetFrom()
	// C15-W1
	for id := uint64(2); id <= 4; id++ {
		pr := r.trk.Progress[id]
		if pr == nil || !pre.hasPr[id] {
			continue
		}
		isFrom := from == id
		vpAssert(vpImplies(isFrom, pr.RecentActive), "W1/heartbeat-response-marks-active")
		behind := vpOr(pre.match[id] < pre.view.last, p2.pstate[id] == tracker.StateProbe)
		sendable := vpAnd(isFrom, behind, p2.pstate[id] != tracker.StateSnapshot)
		var got uint64
		for _, x := range r.msgs[pre.nmsgs:] {
			if x.GetType() == pb.MsgApp || x.GetType() == pb.MsgSnap {
				got += vpB2U(x.GetTo() == id)
			}
		}
		// either something was sent, or a snapshot was needed and the peer is
		// not recently active / none is available (then it stays paused)
		vpAssert(vpImplies(vpAnd(sendable, p2.active[id]), got >= 1), "W1/heartbeat-response-resumes-replication")
	}
	ro := r.readOnly
	if ro.option != ReadOnlySafe || len(m.GetContext()) != 8 {
		vpAssert(len(vpReadOutputs(r, pre, p2)) == 0, "R2/no-release-without-position")
		return
	}
	out := vpReadOutputs(r, pre, p2)
	released := p2.nUnconfirmed - len(ro.unconfirmedReads)
	vpAssert(released >= 0 && len(out) == released, "R2/one-answer-per-released-request")
	if released < 0 || len(out) != released {
		return
	}
	vpAssert(ro.confirmedReads == p2.confirmed+uint64(released), "R2/confirmed-advances-by-released")
	// acks rise only for the sender, to the position it echoed
	pos := binary.LittleEndian.Uint64(m.GetContext())
	for id := uint64(1); id <= 4; id++ {
		a, ok := ro.acks[id]
		if !ok {
			vpAssert(!rp.hasAck[id], "R2/acks-never-forgotten-in-term")
			continue
		}
		rose := vpOr(!rp.hasAck[id], a > rp.acks[id])
		vpAssert(vpImplies(rose, vpAnd(from == id, a == pos)), "R2/ack-only-from-sender-with-its-position")
		vpAssert(a >= rp.acks[id], "R2/acks-monotone")
	}
	// quorum backing of what was confirmed, and maximality
	ackGE := func(p uint64) func(id uint64) bool {
		return func(id uint64) bool {
			a, ok := ro.acks[id]
			return vpAnd(ok, a >= p)
		}
	}
	if released > 0 {
		vpAssert(vpJointMaj(&r.trk, ackGE(ro.confirmedReads)), "R2/released-only-with-quorum-of-acks")
	}
	// (only when the sender is a tracked peer: otherwise the step is a no-op)
	known := false
	for id := uint64(1); id <= 4; id++ {
		if r.trk.Progress[id] != nil {
			known = vpOr(known, from == id)
		}
	}
	if len(ro.unconfirmedReads) > 0 {
		vpAssert(vpImplies(known, !vpJointMaj(&r.trk, ackGE(ro.confirmedReads+1))), "R2/everything-confirmed-is-released")
	}
	// R3: each answer is the request's own recorded index and context, in order
	nl, nr := 0, 0
	for i := 0; i < released; i++ {
		q := p2.readReqs[i]
		isLocal := vpOr(q.req.GetFrom() == None, q.req.GetFrom() == r.id)
		_ = isLocal
		blob := vpBlobID(q.req.GetEntries()[0].GetData())
		// find the i-th answer: local answers and remote answers keep their relative order
		found := false
		for _, o := range out {
			found = vpOr(found, vpAnd(o.index == q.index, o.blob == blob, vpOr(o.local, o.to == q.req.GetFrom())))
		}
		vpAssert(found, "R3/answer-carries-recorded-index-and-own-context")
		vpAssert(q.index <= r.raftLog.committed, "R3/answer-not-above-commit")
	}
	_, _ = nl, nr
	// what is still queued is the untouched suffix
	for i, q := range ro.unconfirmedReads {
		vpAssert(q == p2.readReqs[released+i], "R2/unreleased-suffix-untouched")
	}
}

// R4: any reset installs an empty read-only state.
// vpPostReadGeneric (every cell): read requests are answered only by the two
// paths that go through the quorum round — a MsgReadIndex stepped at a sole
// voter, a MsgHeartbeatResp completing a quorum — or, for requests postponed
// until the first commit of the term, by a sole voter.
func vpPostReadGeneric(r *raft, pre vpRec, p2 vpPre2, m *pb.Message) {
	if pre.state != StateLeader || r.readOnly.option != ReadOnlySafe {
		return
	}
	if m.GetType() == pb.MsgReadIndex || m.GetType() == pb.MsgHeartbeatResp {
		return
	}
	out := vpReadOutputs(r, pre, p2)
	if len(out) == 0 {
		return
	}
	_, selfVoter := r.trk.Voters[0][r.id]
	selfSole := selfVoter && len(r.trk.Voters[0]) == 1 && len(r.trk.Voters[1]) == 0
	v := vpViewOf(r.raftLog)
	vpAssert(vpAnd(selfSole, r.state == StateLeader, v.termAt(v.committed) == r.Term), "R2/postponed-reads-released-without-quorum-only-by-a-sole-voter")
	for _, o := range out {
		vpAssert(o.index >= pre.committed, "R3/answer-not-below-commit-at-receipt")
	}
}

func vpPostReadReset(r *raft, pre vpRec) {
	if r.state != pre.state || (r.state != StateLeader) {
		if r.state != pre.state {
			vpAssert(vpAnd(len(r.readOnly.unconfirmedReads) == 0, r.readOnly.confirmedReads == 0, len(r.readOnly.acks) == 0), "R4/role-change-clears-read-state")
		}
	}
}

// R5 follower side.
func vpPostReadFollower(r *raft, pre vpRec, p2 vpPre2, m *pb.Message) {
	if pre.state != StateFollower {
		return
	}
	switch m.GetType() {
	case pb.MsgReadIndex:
		fwd := pre.lead != None
		n := len(r.msgs) - pre.nmsgs
		vpAssert(vpImplies(fwd, n == 1), "R5/read-forwarded-to-leader")
		vpAssert(vpImplies(!fwd, n == 0), "R5/read-dropped-without-leader")
		for _, x := range r.msgs[pre.nmsgs:] {
			vpAssert(vpAnd(x == m, x.GetTo() == pre.lead, x.GetTerm() == 0), "R5/forward-unchanged")
		}
		vpAssert(len(r.readStates) == p2.nReadStates, "R5/follower-never-answers-itself")
	case pb.MsgReadIndexResp:
		if m.GetTerm() != pre.term || len(m.GetEntries()) != 1 {
			return
		}
		vpAssert(len(r.readStates) == p2.nReadStates+1, "R5/response-yields-read-state")
		if len(r.readStates) == p2.nReadStates+1 {
			rs := r.readStates[p2.nReadStates]
			vpAssert(vpAnd(rs.Index == m.GetIndex(), vpBlobID(rs.RequestCtx) == vpBlobID(m.GetEntries()[0].GetData())), "R5/read-state-from-response")
		}
	}
}

// ---------------------------------------------------------------------------
// C09-S4, C15-W4: snapshot status
// ---------------------------------------------------------------------------

func vpPostSnapStatus(r *raft, pre vpRec, p2 vpPre2, m *pb.Message) {
	if pre.state != StateLeader || r.state != StateLeader {
		return
	}
	for id := uint64(2); id <= 4; id++ {
		pr := r.trk.Progress[id]
		if pr == nil || !pre.hasPr[id] {
			continue
		}
		hit := vpAnd(m.GetFrom() == id, p2.pstate[id] == tracker.StateSnapshot)
		wantNext := vpIte(m.GetReject(), pre.match[id]+1, vpIte(p2.pending[id] > pre.match[id], p2.pending[id]+1, pre.match[id]+1))
		vpAssert(vpImplies(hit, vpAnd(pr.State == tracker.StateProbe, pr.MsgAppFlowPaused, pr.PendingSnapshot == 0, pr.Next == wantNext)), "S4/snapshot-status-leaves-snapshot-state")
		vpAssert(vpImplies(vpAnd(m.GetFrom() == id, p2.pstate[id] != tracker.StateSnapshot), vpAnd(pr.State == p2.pstate[id], pr.Next == p2.next[id])), "S4/status-ignored-outside-snapshot-state")
	}
	vpAssert(len(r.msgs) == pre.nmsgs, "S4/status-sends-nothing")
}

// MsgUnreachable only turns optimistic replication into probing; a pending
// snapshot stays pending (no append may be sent to that peer meanwhile).
func vpPostUnreachable(r *raft, pre vpRec, p2 vpPre2, m *pb.Message) {
	if pre.state != StateLeader || r.state != StateLeader {
		return
	}
	for id := uint64(2); id <= 4; id++ {
		pr := r.trk.Progress[id]
		if pr == nil || !pre.hasPr[id] {
			continue
		}
		hit := m.GetFrom() == id
		vpAssert(vpImplies(vpAnd(hit, p2.pstate[id] == tracker.StateSnapshot), vpAnd(pr.State == tracker.StateSnapshot, pr.PendingSnapshot == p2.pending[id], pr.Next == p2.next[id])), "S4/unreachable-keeps-pending-snapshot")
		vpAssert(vpImplies(vpAnd(hit, p2.pstate[id] == tracker.StateReplicate), vpAnd(pr.State == tracker.StateProbe, pr.Next == pre.match[id]+1)), "S4/unreachable-replicate-becomes-probe")
		vpAssert(vpImplies(vpAnd(hit, p2.pstate[id] == tracker.StateProbe), vpAnd(pr.State == tracker.StateProbe, pr.Next == p2.next[id])), "S4/unreachable-probe-unchanged")
		vpAssert(pr.Match == pre.match[id], "Q2/unreachable-keeps-match")
	}
	vpAssert(len(r.msgs) == pre.nmsgs, "S4/unreachable-sends-nothing")
}

// ---------------------------------------------------------------------------
// C10-G3: no campaign with a committed-but-unapplied configuration change
// ---------------------------------------------------------------------------

func vpHasUnappliedConf(v vpView) bool {
	res := false
	for _, e := range v.stor {
		res = vpOr(res, vpAnd(e.idx < v.offset, e.idx > v.applied, e.idx <= v.committed, vpOr(e.typ == 1, e.typ == 2)))
	}
	for _, e := range v.unst {
		res = vpOr(res, vpAnd(e.idx > v.applied, e.idx <= v.committed, vpOr(e.typ == 1, e.typ == 2)))
	}
	return res
}

func vpPostCampaignGate(r *raft, pre vpRec, p2 vpPre2, m *pb.Message) {
	if pre.state == StateLeader {
		return
	}
	blocked := vpHasUnappliedConf(pre.view)
	// "no campaign": no vote request leaves, no self vote is queued, the node
	// does not become a (pre-)candidate; adopting the sender's higher term as a
	// follower is not a campaign
	noVoteMsgs := true
	for _, x := range r.msgs[pre.nmsgs:] {
		if x.GetType() == pb.MsgVote || x.GetType() == pb.MsgPreVote {
			noVoteMsgs = false
		}
	}
	for _, x := range r.msgsAfterAppend[pre.nafter:] {
		if x.GetType() == pb.MsgVoteResp || x.GetType() == pb.MsgPreVoteResp {
			noVoteMsgs = false
		}
	}
	quiet := vpAnd(noVoteMsgs, r.state == pre.state || r.state == StateFollower, vpOr(r.Term == pre.term, vpAnd(r.Term == m.GetTerm(), r.state == StateFollower)))
	vpAssert(vpImplies(blocked, quiet), "G3/no-campaign-with-unapplied-conf-change")
	if m.GetType() == pb.MsgHup && pre.state == StateFollower {
		pr := r.trk.Progress[r.id]
		promotable := pr != nil && !pr.IsLearner && !pre.view.hasSnap
		if promotable {
			vpAssert(vpImplies(!blocked, r.state != StateFollower), "W6/hup-starts-campaign")
		} else {
			vpAssert(quiet, "G3/unpromotable-never-campaigns")
		}
	}
}
