//go:build verif

package raft

import (
	"google.golang.org/protobuf/proto"

	"go.etcd.io/raft/v3/confchange"
	pb "go.etcd.io/raft/v3/raftpb"
	"go.etcd.io/raft/v3/tracker"
)

// ---------------------------------------------------------------------------
// C10-G1: the propose gate
// ---------------------------------------------------------------------------

type vpPropEnt struct {
	kind       int // 0 normal, 1 ConfChange, 2 ConfChangeV2
	wantsLeave bool
	blob, dlen uint64
}

func vpConfProposal(maxK int, shapes []int) {
	o := vpDefaultOpts(StateLeader)
	o.shapes = shapes
	o.plainData = true
	o.leaderPr = false // the gate does not depend on the peers' replication state
	o.ls, o.lu = 0, 1
	nd := vpBuild(o)
	r := nd.r
	vpAssume(vpAnd(r.leadTransferee == None, uint64(r.maxUncommittedSize) == noLimit, r.pendingConfIndex <= r.raftLog.lastIndex()))
	kk := 1 + vpChoose(maxK)
	var ents []*pb.Entry
	var spec []vpPropEnt
	for i := 0; i < kk; i++ {
		kind := vpChoose(3)
		var e *pb.Entry
		se := vpPropEnt{kind: kind}
		switch kind {
		case 0:
			e = &pb.Entry{Data: vpBytes(vpMaxSize)}
		case 1:
			t := vpU32()
			vpAssume(t <= 3)
			cc := &pb.ConfChange{Type: new(pb.ConfChangeType(t)), NodeId: new(vpU64())}
			data, _ := proto.Marshal(cc)
			e = &pb.Entry{Type: pb.EntryConfChange.Enum(), Data: data}
		case 2:
			tr := vpU32()
			vpAssume(tr <= 2)
			cc := &pb.ConfChangeV2{Transition: new(pb.ConfChangeTransition(tr))}
			n := vpChoose(3)
			for j := 0; j < n; j++ {
				t := vpU32()
				vpAssume(t <= 3)
				cc.Changes = append(cc.Changes, &pb.ConfChangeSingle{Type: new(pb.ConfChangeType(t)), NodeId: new(vpU64())})
			}
			se.wantsLeave = n == 0
			data, _ := proto.Marshal(cc)
			e = &pb.Entry{Type: pb.EntryConfChangeV2.Enum(), Data: data}
		}
		se.blob, se.dlen = vpBlobID(e.GetData()), uint64(len(e.GetData()))
		ents = append(ents, e)
		spec = append(spec, se)
	}
	m := &pb.Message{Type: pb.MsgProp.Enum(), From: new(uint64(1)), To: new(uint64(1)), Entries: ents}
	pre := vpRecord(r)
	preLast := pre.view.last
	applied := r.raftLog.applied
	pend := r.pendingConfIndex
	joint := len(r.trk.Voters[1]) > 0
	hasSelf := r.trk.Progress[r.id] != nil
	err := r.Step(m)
	vpObserve("confprop", vpB2U(err != nil), r.pendingConfIndex)
	if !hasSelf {
		vpAssert(err == ErrProposalDropped, "P2/removed-leader-drops-proposals")
		return
	}
	vpAssert(err == nil, "G1/proposal-accepted")
	post := vpViewOf(r.raftLog)
	vpAssert(post.last == preLast+uint64(kk), "P1/appends-exactly-the-proposed-entries")
	var keptAbove uint64
	for i, se := range spec {
		idx := preLast + uint64(i) + 1
		ps := post.slotAt(idx)
		if se.kind == 0 {
			vpAssert(vpAnd(ps.typ == 0, ps.blob == se.blob, ps.dlen == se.dlen, ps.term == r.Term), "P1/entry-payload-type-order-preserved")
			continue
		}
		alreadyPending := pend > applied
		failed := alreadyPending
		if joint && !se.wantsLeave {
			failed = true
		}
		if !joint && se.wantsLeave {
			failed = true
		}
		kept := vpOr(!failed, r.disableConfChangeValidation)
		vpAssert(vpImplies(kept, vpAnd(ps.typ == uint64(se.kind), ps.blob == se.blob, ps.dlen == se.dlen)), "G1/accepted-conf-change-is-kept-intact")
		vpAssert(vpImplies(!kept, vpAnd(ps.typ == 0, ps.dlen == 0)), "G1/refused-conf-change-becomes-empty-normal-entry")
		vpAssert(ps.term == r.Term, "P1/entry-payload-type-order-preserved")
		pend = vpIte(kept, idx, pend)
		keptAbove += vpB2U(vpAnd(kept, idx > applied))
	}
	vpAssert(r.pendingConfIndex == pend, "G1/pending-conf-index-tracks-last-accepted")
	vpAssert(vpImplies(!r.disableConfChangeValidation, keptAbove <= 1), "G1/at-most-one-unapplied-conf-change")
}

func vpH_conf_Propose_2()       { vpConfProposal(2, []int{0}) }
func vpH_conf_Propose_2_joint() { vpConfProposal(2, []int{1, 7}) }
func vpH_conf_Propose_3()       { vpConfProposal(3, []int{0, 1}) }

// ---------------------------------------------------------------------------
// C10-G4: ApplyConfChange installs exactly the Changer's result
// ---------------------------------------------------------------------------

// vpApplyConfPeers: keep the peers' replication state symbolic even for one change
var vpApplyConfPeers bool

// vpApplyConfRemove: when non-zero the change is fixed to "remove this voter" (simple)
var vpApplyConfRemove uint64

func vpApplyConf(role StateType, shapes []int, maxN int) {
	o := vpDefaultOpts(role)
	o.shapes = shapes
	o.plainData = true
	o.ls, o.lu = 0, 1
	if maxN <= 1 && !vpApplyConfPeers {
		// quick bound: only the leader's own Match is symbolic (the peers are as
		// reset() leaves them), so a commit advance needs the new configuration
		// to make the leader alone a quorum
		o.leaderPr = false
	}
	nd := vpBuild(o)
	r := nd.r
	tr := 0
	n := 0
	if vpApplyConfRemove == 0 {
		tr = vpChoose(3)
		n = vpChoose(maxN + 1)
	}
	cc := &pb.ConfChangeV2{Transition: new(pb.ConfChangeTransition(tr))}
	if vpApplyConfRemove != 0 {
		cc.Changes = append(cc.Changes, &pb.ConfChangeSingle{Type: pb.ConfChangeRemoveNode.Enum(), NodeId: new(vpApplyConfRemove)})
	}
	for j := 0; j < n; j++ {
		t := []pb.ConfChangeType{pb.ConfChangeAddNode, pb.ConfChangeRemoveNode, pb.ConfChangeAddLearnerNode}[vpChoose(3)]
		id := uint64(1 + vpChoose(4))
		cc.Changes = append(cc.Changes, &pb.ConfChangeSingle{Type: t.Enum(), NodeId: new(id)})
	}
	// A-cc: only changes the Changer accepts for the current configuration are
	// handed to ApplyConfChange (the library documents a panic otherwise)
	changer := confchange.Changer{Tracker: r.trk, LastIndex: r.raftLog.lastIndex()}
	var wcfg tracker.Config
	var wprs tracker.ProgressMap
	var werr error
	if cc.LeaveJoint() {
		wcfg, wprs, werr = changer.LeaveJoint()
	} else if autoLeave, ok := cc.EnterJoint(); ok {
		wcfg, wprs, werr = changer.EnterJoint(autoLeave, cc.Changes...)
	} else {
		wcfg, wprs, werr = changer.Simple(cc.Changes...)
	}
	if werr != nil {
		vpAssume(false)
	}
	pre := vpRecord(r)
	rn := &RawNode{raft: r}
	cs := rn.ApplyConfChange(cc)
	wt := tracker.MakeProgressTracker(r.trk.MaxInflight, r.trk.MaxInflightBytes)
	wt.Config, wt.Progress = wcfg, wprs
	wcs := wt.ConfState()
	vpObserve("applyconf", uint64(r.state), r.raftLog.committed, uint64(len(r.msgs)))
	vpAssert(cs.Equivalent(wcs) == nil, "G4/returns-the-new-configuration")
	vpAssert(r.trk.ConfState().Equivalent(wcs) == nil, "G4/installs-exactly-the-changer-result")
	vpAssert(r.trk.AutoLeave == wcfg.AutoLeave, "G4/auto-leave-flag")
	for id := uint64(1); id <= 4; id++ {
		wp, pp := wprs[id], r.trk.Progress[id]
		vpAssert((wp == nil) == (pp == nil), "G4/progress-keys-are-members")
	}
	pr, ok := r.trk.Progress[r.id]
	vpAssert(r.isLearner == (ok && pr.IsLearner), "G4/learner-flag-follows-config")
	removed := !ok || pr.IsLearner
	if pre.state == StateLeader {
		if removed {
			vpAssert(vpImplies(r.stepDownOnRemoval, vpAnd(r.state == StateFollower, r.Term == pre.term, r.lead == None)), "G4/removed-leader-steps-down-if-configured")
			vpAssert(vpImplies(!r.stepDownOnRemoval, vpAnd(r.state == StateLeader, r.raftLog.committed == pre.committed, len(r.msgs) == pre.nmsgs)), "G4/removed-leader-takes-no-further-decision")
		} else {
			vpAssert(r.state == StateLeader, "G4/leader-stays")
			_, tv := r.trk.Voters.IDs()[pre.transferee]
			if !tv {
				vpAssert(r.leadTransferee == None, "G4/transfer-aborted-when-target-leaves")
			}
			// commit advance under the new configuration is quorum-backed (Q1)
			adv := r.raftLog.committed > pre.committed
			v := vpViewOf(r.raftLog)
			vpAssert(vpImplies(adv, v.termAt(r.raftLog.committed) == r.Term), "Q1/commit-own-term")
			vpAssert(vpImplies(adv, vpJointMaj(&r.trk, func(id uint64) bool {
				p := r.trk.Progress[id]
				if p == nil {
					return false
				}
				return p.Match >= r.raftLog.committed
			})), "Q1/commit-quorum-match")
		}
	} else {
		vpAssert(vpAnd(r.state == pre.state, r.Term == pre.term, r.raftLog.committed == pre.committed, len(r.msgs) == pre.nmsgs), "G4/non-leader-only-switches-config")
	}
	vpAssert(r.raftLog.committed >= pre.committed, "H1/commit-monotone")
	ki := &vpConds{post: true}
	vpInvInto(ki, r)
	ki.assertEach("Inv/post")
}

func vpH_conf_Apply_L()  { vpApplyConf(StateLeader, []int{0, 1, 7}, 1) }
func vpH_conf_Apply_F()  { vpApplyConf(StateFollower, []int{0, 1, 7, 4}, 1) }
// one change on a leader whose peers have symbolic progress: removing a lagging
// voter (or leaving a joint configuration) can advance the commit index
func vpH_conf_Apply_L_commit() {
	vpApplyConfPeers = true
	vpApplyConfRemove = 3
	vpApplyConf(StateLeader, []int{0}, 1)
}

// removing the only other voter makes the leader's own durable log the quorum
func vpH_conf_Apply_L_commit_single() {
	vpApplyConfPeers = true
	vpApplyConfRemove = 2
	vpApplyConf(StateLeader, []int{9}, 1)
}

func vpH_conf_Apply_L2() { vpApplyConf(StateLeader, []int{0, 1}, 2) }
func vpH_conf_Apply_F2() { vpApplyConf(StateFollower, []int{0, 1, 7, 4}, 2) }

// ---------------------------------------------------------------------------
// Storage acknowledgements: C08-A5, C10-G6, C03-M4, C09-S2 (V-local)
// ---------------------------------------------------------------------------

func vpApplyRespCell(role StateType, shapes []int) {
	o := vpDefaultOpts(role)
	o.shapes = shapes
	o.noSizeLimit = false
	o.plainData = true
	o.leaderPr = false // the peers' replication state is irrelevant to apply acknowledgements
	o.ls, o.lu = 1, 1
	nd := vpBuild(o)
	r := nd.r
	l := r.raftLog
	// V-local: a batch this node handed out earlier: contiguous, ending at an
	// index <= applying (stale acknowledgements end at or below applied)
	kk := 1 + vpChoose(2)
	end := vpU64()
	// (and persisted: the append acknowledgement precedes the apply acknowledgement
	// in Advance, and asynchronous mode only hands out stable entries)
	vpAssume(vpAnd(end <= l.applying, end >= uint64(kk), end < l.unstable.offset))
	var ents []*pb.Entry
	k := &vpConds{}
	for i := 0; i < kk; i++ {
		ents = append(ents, vpEntry(end-uint64(kk)+1+uint64(i), vpU64(), k, true))
	}
	k.assume()
	m := &pb.Message{Type: pb.MsgStorageApplyResp.Enum(), To: new(uint64(1)), From: new(LocalApplyThread), Term: new(uint64(0)), Entries: ents}
	pre := vpRecord(r)
	p2 := vpRecord2(r)
	preSize, preMax := uint64(l.applyingEntsSize), uint64(l.maxApplyingEntsSize)
	sz := uint64(entsSize(ents))
	var ps uint64
	for _, e := range ents {
		ps += uint64(len(e.GetData()))
	}
	hasSelf := r.trk.Progress[r.id] != nil
	err := r.Step(m)
	vpObserve("applyresp", r.raftLog.applied, r.raftLog.applying, uint64(r.raftLog.applyingEntsSize))
	vpAssert(err == nil, "A5/apply-ack-accepted")
	want := vpIte(end > pre.view.applied, end, pre.view.applied)
	vpAssert(l.applied == want, "A5/applied-is-max")
	vpAssert(l.applying == vpIte(pre.view.applying > want, pre.view.applying, want), "A5/applying-never-behind-applied")
	vpAssert(uint64(l.applyingEntsSize) == vpIte(preSize > sz, preSize-sz, 0), "A5/applying-size-released-saturating")
	vpAssert(l.applyingEntsPaused == (uint64(l.applyingEntsSize) >= preMax), "A5/pause-flag-recomputed")
	if role == StateLeader {
		vpAssert(uint64(r.uncommittedSize) <= p2.uncommitted, "L5/uncommitted-size-only-released")
		vpAssert(uint64(r.uncommittedSize) == vpIte(ps > p2.uncommitted, 0, p2.uncommitted-ps), "L5/uncommitted-size-released-saturating")
	}
	// G6 / W8: auto-leave is proposed exactly when the joint config has been applied
	post := vpViewOf(l)
	auto := vpAnd(r.trk.AutoLeave, want >= p2.pendingConf)
	if role == StateLeader && r.state == StateLeader {
		can := vpAnd(auto, pre.transferee == None)
		if !hasSelf {
			can = false
		}
		// (a leader that has not yet committed an entry of its own term may
		// propose the leave now or once it has; the property only asks that it
		// leaves by itself — a false alarm on a deferring variant showed the
		// unconditional form demanded more than C10 states)
		inTerm := pre.view.termAt(pre.view.committed) == r.Term
		proposed := post.last == pre.view.last+1
		vpAssert(vpImplies(vpAnd(can, inTerm), proposed), "G6/auto-leave-proposed-once-applied")
		ps2 := post.slotAt(pre.view.last + 1)
		vpAssert(vpImplies(proposed, vpAnd(can, ps2.typ == 2, ps2.dlen == 0, ps2.term == r.Term, r.pendingConfIndex == pre.view.last+1)), "G6/auto-leave-entry-is-empty-confchange-v2")
		vpAssert(vpOr(proposed, post.last == pre.view.last), "G6/no-auto-leave-otherwise")
	} else {
		vpAssert(post.last == pre.view.last, "G6/only-leaders-propose-auto-leave")
	}
	vpGenericPost(r, pre, m)
}

func vpH_ack_ApplyResp_L()      { vpApplyRespCell(StateLeader, []int{0, 7}) }
func vpH_ack_ApplyResp_F()      { vpApplyRespCell(StateFollower, []int{0, 7}) }
func vpH_ack_ApplyResp_L_gone() { vpApplyRespCell(StateLeader, []int{5}) }

// vpAppendRespCell: the append thread has written a prefix of the unstable log
// (and the pending snapshot) and its acknowledgement is stepped; the
// acknowledgement may be stale (lower term, other log term).
func vpAppendRespCell(role StateType) {
	o := vpDefaultOpts(role)
	o.lu = 2
	o.unstSnap = role == StateFollower
	nd := vpBuild(o)
	r := nd.r
	l := r.raftLog
	u := &l.unstable
	ms := nd.ms
	pre := vpRecord(r)
	// the append thread persists the snapshot (if any) and the first w unstable entries
	hadSnap := u.snapshot != nil
	var snap *pb.Snapshot
	if hadSnap && vpChoose(2) == 1 {
		snap = proto.Clone(u.snapshot).(*pb.Snapshot)
		ms.ApplySnapshot(snap)
	}
	w := vpChoose(len(u.entries) + 1)
	if hadSnap && snap == nil {
		w = 0 // entries above a snapshot are written after it
	}
	mt, mi, mlt := vpU64(), vpU64(), vpU64()
	vpAssume(vpAnd(mt >= 1, mt <= r.Term))
	if w > 0 {
		ms.Append(u.entries[:w])
		last := u.entries[w-1]
		// V-local: the stamp is (index, term) of the last entry the thread saw
		// under term mt; it may since have been overwritten (ABA), then the term differs
		vpAssume(mi == last.GetIndex())
	} else {
		vpAssume(mi == 0)
	}
	m := &pb.Message{Type: pb.MsgStorageAppendResp.Enum(), To: new(uint64(1)), From: new(LocalAppendThread), Term: new(mt), Index: new(mi), LogTerm: new(mlt), Snapshot: snap}
	preOff := u.offset
	err := r.Step(m)
	vpObserve("appendresp", u.offset, uint64(len(u.entries)))
	vpAssert(err == nil, "M4/append-ack-accepted")
	post := vpViewOf(l)
	// M4 / C18-ABA: an acknowledgement never changes the logical log
	j := vpU64()
	vpAssert(vpAnd(post.last == pre.view.last, post.committed == pre.view.committed), "M4/ack-leaves-log-extent")
	vpAssert(vpImplies(vpAnd(pre.view.has(j), post.has(j)), vpSlotEq(post.slotAt(j), pre.view.slotAt(j))), "M4/ack-leaves-log-entries")
	vpAssert(vpImplies(vpAnd(pre.view.has(j), !post.has(j)), vpAnd(snap != nil, j <= pre.view.snapIdx)), "M4/entries-vanish-only-below-persisted-snapshot")
	if w > 0 {
		stable := vpAnd(mt == r.Term, mlt == u0term(pre.view, mi))
		vpAssert(vpImplies(stable, u.offset == mi+1), "W5/matching-ack-trims-unstable")
		vpAssert(vpImplies(!stable, u.offset == preOff), "M4/stale-ack-trims-nothing")
	}
	if snap != nil {
		vpAssert(vpAnd(u.snapshot == nil, !u.snapshotInProgress, l.applied >= pre.view.snapIdx), "S2/persisted-snapshot-is-applied")
	} else if hadSnap {
		vpAssert(u.snapshot != nil, "S2/snapshot-stays-until-acknowledged")
	}
	vpGenericPost(r, pre, m)
}

func u0term(v vpView, i uint64) uint64 {
	var t uint64
	for _, e := range v.unst {
		t = vpIte(e.idx == i, e.term, t)
	}
	return t
}

func vpH_ack_AppendResp_F() { vpAppendRespCell(StateFollower) }
func vpH_ack_AppendResp_L() { vpAppendRespCell(StateLeader) }
func vpH_ack_AppendResp_C() { vpAppendRespCell(StateCandidate) }
