//go:build verif

package raft

import (
	"encoding/binary"

	pb "go.etcd.io/raft/v3/raftpb"
	"go.etcd.io/raft/v3/tracker"
)

// ---------------------------------------------------------------------------
// Messages
// ---------------------------------------------------------------------------

type vpMsgOpts struct {
	typ      pb.MessageType
	maxEnts  int
	ctx      bool // symbolic context (nil / transfer marker / 8 symbolic bytes)
	readCtx  bool // nil or 8 symbolic bytes (what a follower echoes: V-read)
	snap     bool
	plain    bool // entries are EntryNormal
	propEnts bool // entries as a proposer builds them (no term/index)
}

const vpCampaignTransfer = "CampaignTransfer"

// vpReadContext: nil or the 8-byte position encoding (V-read).
func vpReadContext() []byte {
	if vpChoose(2) == 1 {
		b := make([]byte, 8)
		binary.LittleEndian.PutUint64(b, vpU64())
		return b
	}
	return nil
}

func vpContext() []byte {
	switch vpChoose(3) {
	case 1:
		return []byte(vpCampaignTransfer)
	case 2:
		b := make([]byte, 8)
		binary.LittleEndian.PutUint64(b, vpU64())
		return b
	}
	return nil
}

func vpMessage(o vpMsgOpts, k *vpConds) *pb.Message {
	m := &pb.Message{
		Type:       o.typ.Enum(),
		To:         new(uint64(1)),
		From:       new(vpU64()),
		Term:       new(vpU64()),
		LogTerm:    new(vpU64()),
		Index:      new(vpU64()),
		Commit:     new(vpU64()),
		Reject:     new(vpBool()),
		RejectHint: new(vpU64()),
	}
	k.add(m.GetTerm() <= vpMaxIdx)
	k.add(m.GetLogTerm() <= vpMaxIdx)
	k.add(m.GetIndex() <= vpMaxIdx)
	k.add(m.GetCommit() <= vpMaxIdx)
	k.add(m.GetRejectHint() <= vpMaxIdx)
	n := vpChoose(o.maxEnts + 1)
	for i := 0; i < n; i++ {
		if o.propEnts {
			m.Entries = append(m.Entries, &pb.Entry{Data: vpBytes(vpMaxSize)})
			continue
		}
		t, idx := vpU64(), vpU64()
		k.add(t <= vpMaxIdx)
		k.add(idx <= vpMaxIdx)
		m.Entries = append(m.Entries, vpEntry(idx, t, k, o.plain))
	}
	if o.ctx {
		m.Context = vpContext()
	}
	if o.readCtx {
		m.Context = vpReadContext()
	}
	if o.snap {
		si, st := vpU64(), vpU64()
		k.add(si <= vpMaxIdx)
		k.add(st <= vpMaxIdx)
		sh := vpShapes[vpChoose(vpSnapShapes)]
		m.Snapshot = &pb.Snapshot{Metadata: &pb.SnapshotMetadata{Index: new(si), Term: new(st), ConfState: vpConfState(sh)}, Data: vpBytes(vpMaxSize)}
	}
	return m
}

// ---------------------------------------------------------------------------
// Pre/post records of the scalar node state
// ---------------------------------------------------------------------------

type vpRec struct {
	term, vote, lead, committed uint64
	state                       StateType
	view                        vpView
	nmsgs, nafter               int
	transferee                  uint64
	match                       [5]uint64
	hasPr                       [5]bool
	votes                       map[uint64]bool
}

func vpRecord(r *raft) vpRec {
	rec := vpRec{term: r.Term, vote: r.Vote, lead: r.lead, committed: r.raftLog.committed, state: r.state,
		view: vpViewOf(r.raftLog), nmsgs: len(r.msgs), nafter: len(r.msgsAfterAppend), transferee: r.leadTransferee}
	for id := uint64(1); id <= 4; id++ {
		if pr := r.trk.Progress[id]; pr != nil {
			rec.match[id] = pr.Match
			rec.hasPr[id] = true
		}
	}
	rec.votes = map[uint64]bool{}
	for id := uint64(1); id <= 4; id++ {
		if v, ok := r.trk.Votes[id]; ok {
			rec.votes[id] = v
		}
	}
	return rec
}

func vpIsPromise(t pb.MessageType) bool {
	return t == pb.MsgAppResp || t == pb.MsgVoteResp || t == pb.MsgPreVoteResp
}

// vpJointMaj: a strict majority of every non-empty half of voters satisfies p.
func vpJointMaj(trk *tracker.ProgressTracker, p func(id uint64) bool) bool {
	res := true
	for h := 0; h < 2; h++ {
		half := trk.Voters[h]
		if len(half) == 0 {
			continue
		}
		var cnt uint64
		for id := uint64(1); id <= 4; id++ {
			if _, ok := half[id]; ok {
				cnt += vpB2U(p(id))
			}
		}
		res = vpAnd(res, cnt >= uint64(len(half)/2+1))
	}
	return res
}

// ---------------------------------------------------------------------------
// Generic post-conditions evaluated on every Step cell
// ---------------------------------------------------------------------------

func vpGenericPost(r *raft, pre vpRec, m *pb.Message) {
	post := vpRecord(r)
	// C07-H1
	vpAssert(post.term >= pre.term, "H1/term-monotone")
	vpAssert(post.committed >= pre.committed, "H1/commit-monotone")
	vpAssert(vpImplies(post.term == pre.term, vpOr(post.vote == pre.vote, pre.vote == None)), "H1/vote-once-per-term")
	// C05-D1 routing and C07-H2 terms of emitted messages
	for _, x := range r.msgs[pre.nmsgs:] {
		vpAssert(!vpIsPromise(x.GetType()), "D1/promise-not-in-msgs")
		vpAssert(x.GetTo() != r.id, "D1/self-not-in-msgs")
		vpMsgTerm(r, pre, x, m)
	}
	for _, x := range r.msgsAfterAppend[pre.nafter:] {
		vpAssert(vpIsPromise(x.GetType()), "D1/only-promises-after-append")
		vpMsgTerm(r, pre, x, m)
	}
	// C08-A2 cursor monotonicity
	vpAssert(vpAnd(post.view.applied >= pre.view.applied, post.view.applying >= pre.view.applying), "A2/cursors-monotone")
	// C04-N2 committed prefix immutable (j universally quantified)
	j := vpU64()
	vpAssert(vpImplies(vpAnd(j <= pre.committed, pre.view.has(j), post.view.has(j)), vpSlotEq(pre.view.slotAt(j), post.view.slotAt(j))), "N2/committed-prefix-immutable")
	vpAssert(vpImplies(vpAnd(j <= pre.committed, pre.view.has(j), !post.view.has(j)), vpAnd(post.view.hasSnap, post.view.snapIdx > pre.committed, j <= post.view.snapIdx)), "N2/committed-only-dropped-by-snapshot")
	// C20-P4 nothing invented: outside proposals, an entry that is new or
	// different at index j is an entry of the stepped MsgApp, the single empty
	// entry of a new leader, or the single empty auto-leave entry
	if m.GetType() != pb.MsgProp {
		changed := vpAnd(post.view.has(j), vpOr(!pre.view.has(j), !vpSlotEq(pre.view.slotAt(j), post.view.slotAt(j))))
		fromMsg := false
		if m.GetType() == pb.MsgApp {
			for _, e := range m.GetEntries() {
				fromMsg = vpOr(fromMsg, vpAnd(e.GetIndex() == j, vpSlotEq(vpSlotOf(e), post.view.slotAt(j))))
			}
		}
		ps := post.view.slotAt(j)
		emptyOwn := vpAnd(j == pre.view.last+1, ps.term == post.term, ps.dlen == 0, post.state == StateLeader, vpOr(ps.typ == 0, ps.typ == 2))
		vpAssert(vpImplies(changed, vpOr(fromMsg, emptyOwn)), "P4/nothing-invented")
	}
	// C03-M3 leader append-only
	if pre.state == StateLeader && post.state == StateLeader {
		sameTerm := post.term == pre.term
		vpAssert(vpImplies(vpAnd(sameTerm, pre.view.has(j)), vpAnd(post.view.has(j), vpSlotEq(pre.view.slotAt(j), post.view.slotAt(j)))), "M3/leader-append-only")
		vpAssert(vpImplies(vpAnd(sameTerm, post.view.has(j), j > pre.view.last), post.view.slotAt(j).term == post.term), "M3/new-entries-own-term")
		vpAssert(vpImplies(sameTerm, post.view.first == pre.view.first), "M3/leader-first-index")
	}
	// C02-E3 becoming leader
	if post.state == StateLeader && pre.state != StateLeader {
		vpAssert(pre.state == StateCandidate, "E3/leader-from-candidate")
		vpAssert(m.GetType() == pb.MsgVoteResp, "E3/by-vote-response")
		vpAssert(vpAnd(m.GetTerm() == pre.term, post.term == pre.term), "E3/same-term")
		from := m.GetFrom()
		vpAssert(vpJointMaj(&r.trk, func(id uint64) bool {
			v, ok := pre.votes[id]
			return vpOr(vpAnd(ok, v), vpAnd(!ok, id == from, !m.GetReject()))
		}), "E3/vote-quorum")
		// C04-N1: the new leader keeps its log and appends exactly one empty entry of its term
		vpAssert(vpAnd(post.view.last == pre.view.last+1, post.view.first == pre.view.first), "N1/new-leader-appends-one-entry")
		ne := post.view.slotAt(pre.view.last + 1)
		vpAssert(vpAnd(ne.term == post.term, ne.typ == 0, ne.dlen == 0), "N1/new-leader-entry-is-empty-own-term")
		vpAssert(vpImplies(pre.view.has(j), vpAnd(post.view.has(j), vpSlotEq(pre.view.slotAt(j), post.view.slotAt(j)))), "N1/new-leader-keeps-its-log")
		nself := 0
		for _, x := range r.msgsAfterAppend[pre.nafter:] {
			if x.GetTo() == r.id && x.GetType() == pb.MsgAppResp {
				nself++
				vpAssert(x.GetIndex() == post.view.last, "N1/self-ack-queued-behind-persistence")
			}
		}
		vpAssert(nself == 1, "N1/self-ack-queued-behind-persistence")
		// C10-G2: configuration changes are held back until the whole old log is applied
		vpAssert(r.pendingConfIndex == pre.view.last, "G2/new-leader-pending-conf-index")
	}
	// C06-Q1 leader commit advance
	if post.state == StateLeader && pre.state == StateLeader {
		adv := vpAnd(post.committed > pre.committed, post.term == pre.term)
		vpAssert(vpImplies(adv, post.view.termAt(post.committed) == post.term), "Q1/commit-own-term")
		vpAssert(vpImplies(adv, vpJointMaj(&r.trk, func(id uint64) bool {
			pr := r.trk.Progress[id]
			if pr == nil {
				return false
			}
			return pr.Match >= post.committed
		})), "Q1/commit-quorum-match")
		// C06-Q2 Match provenance
		for id := uint64(1); id <= 4; id++ {
			pr := r.trk.Progress[id]
			if pr == nil || !pre.hasPr[id] {
				continue
			}
			rose := vpAnd(pr.Match > pre.match[id], post.term == pre.term)
			vpAssert(vpImplies(rose, vpAnd(m.GetType() == pb.MsgAppResp, m.GetFrom() == id, !m.GetReject(), m.GetTerm() == post.term, pr.Match == m.GetIndex())), "Q2/match-provenance")
		}
	}
	ki := &vpConds{post: true}
	vpInvInto(ki, r)
	ki.assertEach("Inv/post")
}

// vpMsgTerm: C07-H2.
func vpMsgTerm(r *raft, pre vpRec, x *pb.Message, m *pb.Message) {
	t := x.GetType()
	switch {
	case t == pb.MsgProp || t == pb.MsgReadIndex:
		// forwarded local requests carry whatever term the original had
	case t == pb.MsgPreVote:
		vpAssert(x.GetTerm() == r.Term+1, "H2/prevote-next-term")
	case (t == pb.MsgVoteResp || t == pb.MsgPreVoteResp) && !x.GetReject():
		vpAssert(vpOr(x.GetTerm() == m.GetTerm(), x.GetTerm() == r.Term, x.GetTerm() == r.Term+1), "H2/grant-echoes-request-term")
		vpAssert(x.GetTerm() >= pre.term, "H2/no-term-below-exposed")
	default:
		vpAssert(x.GetTerm() == r.Term, "H2/msg-carries-current-term")
	}
}

// ---------------------------------------------------------------------------
// Step cells
// ---------------------------------------------------------------------------

func vpDefaultOpts(role StateType) vpOpts {
	o := vpOpts{role: role, shapes: []int{0}, ls: 1, lu: 1, noSizeLimit: true, concBase: true}
	if role == StateLeader {
		o.leaderPr = true
		o.inflPeers = 1
		o.symPeers = 1
	}
	return o
}

// vpCell runs one (role, message type) cell. tier 0 = quick bounds, 1 = thorough bounds.
func vpCell(role StateType, typ pb.MessageType, tier int) {
	o := vpDefaultOpts(role)
	if tier == 1 {
		o.ls, o.lu = 2, 2
		o.noSizeLimit = false
		o.concBase = false
		o.shapes = []int{0, 1, 3, 7}
		if role == StateLeader {
			o.symPeers = 2
			o.inflPeers = 2
		}
	}
	if tier == 2 {
		// middle tier: the deeper log and all four shapes of tier 1, but the
		// compaction index stays in {0, 7} and one peer is symbolic
		o.ls, o.lu = 2, 2
		o.shapes = []int{0, 1, 3, 7}
	}
	if role == StateLeader {
		switch typ {
		case pb.MsgAppResp, pb.MsgHeartbeatResp, pb.MsgBeat, pb.MsgProp, pb.MsgSnapStatus, pb.MsgUnreachable, pb.MsgTransferLeader, pb.MsgCheckQuorum, pb.MsgReadIndex:
		default:
			// cells in which a leader only steps down (or ignores the message):
			// the replication state of its peers is irrelevant, keep it as
			// reset() leaves it
			o.leaderPr = false
		}
	}
	mo := vpMsgOpts{typ: typ}
	switch typ {
	case pb.MsgApp:
		mo.maxEnts = 2
	case pb.MsgProp:
		mo.maxEnts = 2
		mo.propEnts = true
	case pb.MsgVote, pb.MsgPreVote, pb.MsgHeartbeat, pb.MsgHeartbeatResp:
		mo.ctx = true
	case pb.MsgSnap:
		mo.snap = true
		o.unstSnap = true
	case pb.MsgReadIndex, pb.MsgReadIndexResp:
		mo.maxEnts = 1
		mo.propEnts = true
	case pb.MsgVoteResp, pb.MsgPreVoteResp:
		o.votes = true
		if tier == 0 {
			o.shapes = []int{0, 1}
		}
	case pb.MsgHup, pb.MsgTimeoutNow:
		if tier == 0 {
			o.shapes = []int{0, 4, 5}
		}
		if tier == 2 {
			o.shapes = []int{0, 1, 4, 5, 7}
		}
	case pb.MsgCheckQuorum:
		if tier == 0 {
			o.shapes = []int{0, 1, 3}
		}
	}
	vpStepCell(role, o, mo)
}

// size-limit cells (C16-L2): symbolic maxMsgSize on the leader paths that send appends
func vpSizeCell(typ pb.MessageType, ls, lu int, from uint64) {
	vpFromOnly = from
	o := vpDefaultOpts(StateLeader)
	o.noSizeLimit = false
	o.ls, o.lu = ls, lu
	o.plainData = true
	mo := vpMsgOpts{typ: typ}
	if typ == pb.MsgProp {
		mo.maxEnts = 2
		mo.propEnts = true
	}
	vpStepCell(StateLeader, o, mo)
}

// the two largest leader cells, split by sender: the symbolic peer, the leader itself
func vpH_step_L_MsgAppResp_from2()       { vpFromOnly = 2; vpCell(StateLeader, pb.MsgAppResp, 0) }
func vpH_step_L_MsgAppResp_from1()       { vpFromOnly = 1; vpCell(StateLeader, pb.MsgAppResp, 0) }
func vpH_step_L_MsgHeartbeatResp_from2() { vpFromOnly = 2; vpCell(StateLeader, pb.MsgHeartbeatResp, 0) }

// lean variant of the peer-acknowledgement cell for the quick tier: no stable
// entries, one unstable entry
func vpH_step_L_MsgAppResp_from2_lean() {
	vpFromOnly = 2
	o := vpDefaultOpts(StateLeader)
	o.ls, o.lu = 0, 1
	vpStepCell(StateLeader, o, vpMsgOpts{typ: pb.MsgAppResp})
}

// the same on a joint configuration ({1,2,3}&&{1,2}) and with a learner peer
func vpH_step_L_MsgAppResp_from2_joint() {
	vpFromOnly = 2
	o := vpDefaultOpts(StateLeader)
	o.ls, o.lu = 0, 1
	o.shapes = []int{1, 3}
	o.plainData = true
	vpStepCell(StateLeader, o, vpMsgOpts{typ: pb.MsgAppResp})
}

func vpH_step_L_MsgProp_lean() {
	o := vpDefaultOpts(StateLeader)
	o.ls, o.lu = 0, 1
	vpStepCell(StateLeader, o, vpMsgOpts{typ: pb.MsgProp, maxEnts: 2, propEnts: true})
}

// C20-P1: the proposer may reuse its buffer after the call: the log must hold
// its own copy of the payload bytes.
func vpH_step_L_MsgProp_bytes() {
	o := vpDefaultOpts(StateLeader)
	o.ls, o.lu = 0, 1
	o.plainData = true
	nd := vpBuild(o)
	r := nd.r
	vpAssume(vpAnd(r.leadTransferee == None, uint64(r.maxUncommittedSize) == noLimit))
	b0, b1 := vpU8(), vpU8()
	buf := []byte{b0, b1}
	m := &pb.Message{Type: pb.MsgProp.Enum(), From: new(uint64(1)), To: new(uint64(1)), Entries: []*pb.Entry{{Data: buf}}}
	last := r.raftLog.lastIndex()
	err := r.Step(m)
	if r.trk.Progress[r.id] == nil {
		vpAssert(err == ErrProposalDropped, "P2/removed-leader-drops-proposals")
		return
	}
	vpAssert(err == nil, "P1/accepted")
	// the proposer overwrites its buffer
	buf[0], buf[1] = ^b0, ^b1
	ents, e2 := r.raftLog.slice(last+1, last+2, noLimit)
	vpAssert(e2 == nil && len(ents) == 1, "P1/appends-exactly-the-proposed-entries")
	if len(ents) == 1 {
		d := ents[0].GetData()
		vpAssert(len(d) == 2, "P1/entry-payload-type-order-preserved")
		if len(d) == 2 {
			vpAssert(vpAnd(d[0] == b0, d[1] == b1), "P1/log-holds-its-own-copy-of-the-payload")
		}
	}
}

func vpH_size_L_MsgHeartbeatResp()   { vpSizeCell(pb.MsgHeartbeatResp, 0, 2, 2) }
func vpH_size_L_MsgProp()            { vpSizeCell(pb.MsgProp, 0, 1, 0) }
func vpH_size_L_MsgAppResp()         { vpSizeCell(pb.MsgAppResp, 0, 2, 2) }
func vpH_size_L_MsgHeartbeatResp_1() { vpSizeCell(pb.MsgHeartbeatResp, 1, 2, 0) }



// vpValidity adds the V-* assumptions of DESIGN 3.2 needed for panic-freedom
// and Inv preservation of the given message on the given node.
func vpValidity(r *raft, m *pb.Message, k *vpConds) {
	l := r.raftLog
	v := vpViewOf(l)
	from := m.GetFrom()
	// V-self: messages "from" this node are ones it queues for itself
	switch m.GetType() {
	case pb.MsgAppResp:
		k.add(vpImplies(from == r.id, vpAnd(!m.GetReject(), m.GetIndex() <= v.last, m.GetTerm() == r.Term)))
	case pb.MsgVoteResp, pb.MsgPreVoteResp:
		k.add(vpImplies(from == r.id, !m.GetReject()))
	case pb.MsgUnreachable, pb.MsgSnapStatus:
		// the application reports about its peers, not about the node itself
		k.add(from != r.id)
	case pb.MsgHup, pb.MsgBeat, pb.MsgCheckQuorum, pb.MsgProp, pb.MsgReadIndex, pb.MsgStorageAppendResp, pb.MsgStorageApplyResp, pb.MsgTransferLeader, pb.MsgForgetLeader:
	default:
		k.add(from != r.id)
	}
	switch m.GetType() {
	case pb.MsgHup, pb.MsgBeat, pb.MsgCheckQuorum, pb.MsgProp, pb.MsgReadIndex, pb.MsgTransferLeader, pb.MsgForgetLeader:
		// local requests: RawNode's methods leave From unset (Campaign,
		// ReadIndex, ForgetLeader, ProposeConfChange) or set it to this node or
		// to the subject of the request
	default:
		k.add(from != None)
	}
	// V-term: messages that travel between nodes carry the sender's term (>= 1);
	// local requests carry none.
	switch m.GetType() {
	case pb.MsgApp, pb.MsgAppResp, pb.MsgVote, pb.MsgVoteResp, pb.MsgPreVote, pb.MsgPreVoteResp, pb.MsgHeartbeat, pb.MsgHeartbeatResp, pb.MsgSnap, pb.MsgTimeoutNow, pb.MsgReadIndexResp:
		k.add(m.GetTerm() >= 1)
	case pb.MsgStorageAppendResp:
	default:
		k.add(m.GetTerm() == 0)
	}
	// V-prop / V-read: local requests are built by RawNode with one entry (Propose,
	// ReadIndex) or at least one (ProposeConfChange batches are not produced by this library)
	switch m.GetType() {
	case pb.MsgProp:
		k.add(len(m.GetEntries()) >= 1)
	case pb.MsgReadIndex:
		k.add(len(m.GetEntries()) == 1)
	}
	switch m.GetType() {
	case pb.MsgApp:
		// V-app: well-formed slice, agrees with the committed prefix
		prevI, prevT := m.GetIndex(), m.GetLogTerm()
		k.add(prevT <= m.GetTerm())
		for i, e := range m.GetEntries() {
			k.add(e.GetIndex() == m.GetIndex()+uint64(i)+1)
			k.add(e.GetTerm() >= prevT)
			k.add(e.GetTerm() >= 1)
			k.add(e.GetTerm() <= m.GetTerm())
			// agreement with the receiver's committed entries
			k.add(vpImplies(vpAnd(e.GetIndex() <= l.committed, v.has(e.GetIndex())), e.GetTerm() == v.termAt(e.GetIndex())))
			prevT = e.GetTerm()
		}
		_ = prevI
		// the leader's commit index never exceeds its own log; the part of it
		// that this message proves to the follower is min(commit, last new)
	case pb.MsgHeartbeat:
		// V-hb
		k.add(vpImplies(m.GetTerm() >= r.Term, m.GetCommit() <= v.last))
	case pb.MsgSnap:
		s := m.GetSnapshot()
		si, st := s.GetMetadata().GetIndex(), s.GetMetadata().GetTerm()
		k.add(si >= 1)
		k.add(st >= 1)
		k.add(st <= m.GetTerm())
		k.add(vpImplies(vpAnd(si <= l.committed, v.has(si)), st == v.termAt(si)))
	case pb.MsgAppResp:
		// V-ack
		k.add(vpImplies(vpAnd(!m.GetReject(), m.GetTerm() == r.Term), m.GetIndex() <= v.last))
	}
}

// vpFromOnly, when non-zero, restricts the sender id of the stepped message
// (used to split the largest leader cells by sender).
var vpFromOnly uint64

// vpCellAssume: an additional, cell-specific restriction of the pre-state and
// message (stated in the cell's comment; part of its bound)
var vpCellAssume func(r *raft, m *pb.Message) bool

func vpStepCell(role StateType, o vpOpts, mo vpMsgOpts) {
	nd := vpBuild(o)
	r := nd.r
	k := &vpConds{}
	m := vpMessage(mo, k)
	vpValidity(r, m, k)
	if vpFromOnly != 0 {
		k.add(m.GetFrom() == vpFromOnly)
	}
	if vpCellAssume != nil {
		k.add(vpCellAssume(r, m))
	}
	k.assume()
	pre := vpRecord(r)
	p2 := vpRecord2(r)
	preCfg := r.trk.ConfState()
	rp := vpReadRecord(r)
	orig := append([]*pb.Entry(nil), m.GetEntries()...)
	handed := vpHandOut(r)
	err := r.Step(m)
	handed.check("M4/handed-out-entries-never-rewritten")
	vpObserve("step", vpB2U(err != nil), r.Term, r.Vote, r.lead, uint64(r.state), r.raftLog.committed, uint64(len(r.msgs)), uint64(len(r.msgsAfterAppend)))
	vpGenericPost(r, pre, m)
	vpPostVotesGeneric(r, pre, m)
	vpPostLeaderSends(r, pre, p2, m)
	vpPostActivity(r, pre, p2, m)
	switch m.GetType() {
	case pb.MsgVote, pb.MsgPreVote:
		vpPostVoteReq(r, pre, p2, m)
	case pb.MsgHeartbeat:
		vpPostHeartbeat(r, pre, m)
	case pb.MsgApp:
		vpPostAppend(r, pre, p2, m)
	case pb.MsgSnap:
		vpPostSnap(r, pre, p2, m, preCfg)
	case pb.MsgProp:
		vpPostProp(r, pre, p2, m, err, orig)
	case pb.MsgCheckQuorum:
		vpPostCheckQuorum(r, pre, p2)
	case pb.MsgReadIndex:
		if len(m.GetEntries()) == 1 {
			vpPostReadIndexLeader(r, pre, p2, rp, m)
		}
		vpPostReadFollower(r, pre, p2, m)
	case pb.MsgReadIndexResp:
		vpPostReadFollower(r, pre, p2, m)
	case pb.MsgHeartbeatResp:
		vpPostHeartbeatRespLeader(r, pre, p2, rp, m)
	case pb.MsgSnapStatus:
		vpPostSnapStatus(r, pre, p2, m)
	case pb.MsgUnreachable:
		vpPostUnreachable(r, pre, p2, m)
	case pb.MsgHup, pb.MsgTimeoutNow:
		vpPostCampaignGate(r, pre, p2, m)
	}
	vpPostReadReset(r, pre)
	vpPostReadGeneric(r, pre, p2, m)
}

// ---- C11 cells: leader with queued read requests, singleton and joint shapes ----

func vpReadCell(typ pb.MessageType, shapes []int, reads, pend int) {
	o := vpDefaultOpts(StateLeader)
	o.ls, o.lu = 0, 1
	o.shapes = shapes
	o.reads = reads
	o.pendReads = pend
	o.plainData = true
	mo := vpMsgOpts{typ: typ}
	if typ == pb.MsgReadIndex {
		mo.maxEnts = 1
		mo.propEnts = true
	} else {
		mo.readCtx = true
	}
	vpStepCell(StateLeader, o, mo)
}

func vpH_read_L_MsgReadIndex()           { vpReadCell(pb.MsgReadIndex, []int{0, 1}, 1, 1) }
func vpH_read_L_MsgReadIndex_singleton() { vpReadCell(pb.MsgReadIndex, []int{6, 8, 11, 12}, 0, 0) }

// a leader with a postponed read request receives the acknowledgement that
// commits the first entry of its term: the request must enter the quorum round
func vpH_read_L_MsgAppResp_pending() { vpReadPendingCell(0) }
func vpH_read_L_MsgAppResp_pending_joint() { vpReadPendingCell(12) }

// (restricted to: exactly one postponed request, an accepting acknowledgement)
func vpReadPendingCell(shape int) {
	vpFromOnly = 2
	vpCellAssume = func(r *raft, m *pb.Message) bool {
		return vpAnd(len(r.pendingReadIndexMessages) == 1, !m.GetReject(), m.GetTerm() == r.Term)
	}
	o := vpDefaultOpts(StateLeader)
	o.ls, o.lu = 0, 1
	o.shapes = []int{shape}
	o.pendReads = 1
	o.plainData = true
	vpStepCell(StateLeader, o, vpMsgOpts{typ: pb.MsgAppResp})
}

// campaign gate with a pending (possibly already handed out) snapshot, and
// with a backlog of unapplied entries behind a symbolic apply-size limit
func vpH_step_F_MsgHup_snap() {
	o := vpDefaultOpts(StateFollower)
	o.unstSnap = true
	vpStepCell(StateFollower, o, vpMsgOpts{typ: pb.MsgHup})
}

// a transfer request naming the learner peer (and the other peer) on the learner shape
func vpH_step_L_MsgTransferLeader_learner() {
	o := vpDefaultOpts(StateLeader)
	o.ls, o.lu = 0, 1
	o.shapes = []int{3}
	o.plainData = true
	vpStepCell(StateLeader, o, vpMsgOpts{typ: pb.MsgTransferLeader})
}

func vpH_step_F_MsgHup_paged() {
	o := vpDefaultOpts(StateFollower)
	o.ls, o.lu = 2, 1
	o.noSizeLimit = false
	vpStepCell(StateFollower, o, vpMsgOpts{typ: pb.MsgHup})
}
func vpH_read_L_MsgHeartbeatResp()       { vpFromOnly = 2; vpReadCell(pb.MsgHeartbeatResp, []int{0}, 2, 0) }
func vpH_read_L_MsgHeartbeatResp_joint() { vpFromOnly = 2; vpReadCell(pb.MsgHeartbeatResp, []int{1}, 2, 0) }
func vpH_read_L_MsgHeartbeatResp_any()   { vpReadCell(pb.MsgHeartbeatResp, []int{0, 1, 9}, 2, 0) }
