//go:build verif

package raft

import (
	"encoding/binary"

	"google.golang.org/protobuf/proto"

	pb "go.etcd.io/raft/v3/raftpb"
)

// ---------------------------------------------------------------------------
// RawNode's request methods (Campaign, Propose, ReadIndex, TransferLeader,
// ForgetLeader, ReportUnreachable, ReportSnapshot, Tick) are specified by the
// message they stand for: the step cells decide what Step does with that
// message, these cells decide — relationally, as the determinism cells do —
// that calling the method leaves the node in exactly the state, with exactly
// the queued messages, that stepping the documented message does. The same
// symbolic node is built twice (vpRewindInputs re-issues the inputs).
// ---------------------------------------------------------------------------

const (
	vpAPICampaign = iota
	vpAPIPropose
	vpAPIReadIndex
	vpAPITransferLeader
	vpAPIForgetLeader
	vpAPIReportUnreachable
	vpAPIReportSnapshot
	vpAPITick
)

func vpAPIOnce(role StateType, op int, shapes []int, viaAPI bool) vpDigest {
	o := vpDefaultOpts(role)
	o.shapes = shapes
	if role == StateLeader {
		o.reads = 1
		o.ls, o.lu = 0, 1
		o.plainData = true
	}
	if role == StateCandidate || role == StatePreCandidate {
		o.votes = true
	}
	nd := vpBuild(o)
	r := nd.r
	rn := &RawNode{raft: r}
	var err error
	switch op {
	case vpAPICampaign:
		if viaAPI {
			err = rn.Campaign()
		} else {
			err = r.Step(&pb.Message{Type: pb.MsgHup.Enum()})
		}
	case vpAPIPropose:
		data := vpBytes(vpMaxSize)
		if viaAPI {
			err = rn.Propose(data)
		} else {
			err = r.Step(&pb.Message{Type: pb.MsgProp.Enum(), From: new(r.id), Entries: []*pb.Entry{{Data: data}}})
		}
	case vpAPIReadIndex:
		ctx := make([]byte, 8)
		binary.LittleEndian.PutUint64(ctx, vpU64())
		if viaAPI {
			rn.ReadIndex(ctx)
		} else {
			err = r.Step(&pb.Message{Type: pb.MsgReadIndex.Enum(), Entries: []*pb.Entry{{Data: ctx}}})
			err = nil // ReadIndex does not report the error
		}
	case vpAPITransferLeader:
		id := vpU64()
		if viaAPI {
			rn.TransferLeader(id)
		} else {
			_ = r.Step(&pb.Message{Type: pb.MsgTransferLeader.Enum(), From: new(id)})
		}
	case vpAPIForgetLeader:
		if viaAPI {
			err = rn.ForgetLeader()
		} else {
			err = r.Step(&pb.Message{Type: pb.MsgForgetLeader.Enum()})
		}
	case vpAPIReportUnreachable:
		id := vpU64()
		vpAssume(id != r.id) // the application reports about its peers
		if viaAPI {
			rn.ReportUnreachable(id)
		} else {
			_ = r.Step(&pb.Message{Type: pb.MsgUnreachable.Enum(), From: new(id)})
		}
	case vpAPIReportSnapshot:
		id := vpU64()
		vpAssume(id != r.id)
		failed := vpBool()
		if viaAPI {
			st := SnapshotFinish
			if failed {
				st = SnapshotFailure
			}
			rn.ReportSnapshot(id, st)
		} else {
			_ = r.Step(&pb.Message{Type: pb.MsgSnapStatus.Enum(), From: new(id), Reject: new(failed)})
		}
	case vpAPITick:
		if viaAPI {
			rn.Tick()
		} else {
			r.tick()
		}
	}
	return vpDigestOf(r, err)
}

func vpAPICell(role StateType, op int, shapes []int, label string) {
	d0 := vpAPIOnce(role, op, shapes, false)
	vpObserve("api", d0.term, d0.vote, d0.state, d0.committed, uint64(len(d0.msgs)), uint64(len(d0.after)))
	vpRewindInputs()
	d1 := vpAPIOnce(role, op, shapes, true)
	vpDigestsEqual(d0, d1, label)
}

var vpAPIShapes = []int{0, 1}

func vpH_api_Campaign_F()          { vpAPICell(StateFollower, vpAPICampaign, []int{0, 4}, "API/campaign-is-MsgHup") }
func vpH_api_Campaign_L()          { vpAPICell(StateLeader, vpAPICampaign, []int{0}, "API/campaign-is-MsgHup") }
func vpH_api_Propose_F()           { vpAPICell(StateFollower, vpAPIPropose, []int{0}, "API/propose-is-MsgProp-from-self-with-the-payload") }
func vpH_api_Propose_C()           { vpAPICell(StateCandidate, vpAPIPropose, []int{0}, "API/propose-is-MsgProp-from-self-with-the-payload") }
func vpH_api_Propose_L()           { vpAPICell(StateLeader, vpAPIPropose, []int{0, 5}, "API/propose-is-MsgProp-from-self-with-the-payload") }
func vpH_api_ReadIndex_F()         { vpAPICell(StateFollower, vpAPIReadIndex, []int{0}, "API/read-index-is-MsgReadIndex-with-the-context") }
func vpH_api_ReadIndex_L()         { vpAPICell(StateLeader, vpAPIReadIndex, []int{0, 6}, "API/read-index-is-MsgReadIndex-with-the-context") }
func vpH_api_TransferLeader_F()    { vpAPICell(StateFollower, vpAPITransferLeader, []int{0}, "API/transfer-leader-is-MsgTransferLeader-from-the-transferee") }
func vpH_api_TransferLeader_L()    { vpAPICell(StateLeader, vpAPITransferLeader, []int{0, 3}, "API/transfer-leader-is-MsgTransferLeader-from-the-transferee") }
func vpH_api_ForgetLeader_F()      { vpAPICell(StateFollower, vpAPIForgetLeader, []int{0}, "API/forget-leader-is-MsgForgetLeader") }
func vpH_api_ReportUnreachable_L() { vpAPICell(StateLeader, vpAPIReportUnreachable, []int{0}, "API/report-unreachable-is-MsgUnreachable-from-the-peer") }
func vpH_api_ReportSnapshot_L()    { vpAPICell(StateLeader, vpAPIReportSnapshot, []int{0}, "API/report-snapshot-failure-is-a-rejecting-MsgSnapStatus") }
func vpH_api_Tick_F()              { vpAPICell(StateFollower, vpAPITick, []int{0}, "API/tick-is-the-role-tick") }
func vpH_api_Tick_L()              { vpAPICell(StateLeader, vpAPITick, []int{0}, "API/tick-is-the-role-tick") }

// ProposeConfChange at a leader that may accept a configuration change: the
// entry it appends has the type that matches its encoding and decodes back to
// the change that was proposed (a ConfChange stays a ConfChange, a
// ConfChangeV2 stays a ConfChangeV2).
func vpAPIProposeConfChange(v2 bool) {
	o := vpDefaultOpts(StateLeader)
	o.ls, o.lu = 0, 1
	o.plainData = true
	o.leaderPr = false
	nd := vpBuild(o)
	r := nd.r
	rn := &RawNode{raft: r}
	vpAssume(vpAnd(r.leadTransferee == None, uint64(r.maxUncommittedSize) == noLimit, r.pendingConfIndex <= r.raftLog.applied))
	pre := vpViewOf(r.raftLog)
	var err error
	var wantType pb.EntryType
	t1, id1 := vpU32(), vpU64()
	vpAssume(t1 <= 3)
	if !v2 {
		wantType = pb.EntryConfChange
		err = rn.ProposeConfChange(&pb.ConfChange{Type: new(pb.ConfChangeType(t1)), NodeId: new(id1)})
	} else {
		wantType = pb.EntryConfChangeV2
		// a single change with the automatic transition: the simple protocol,
		// which this leader (not joint) accepts
		err = rn.ProposeConfChange(&pb.ConfChangeV2{Changes: []*pb.ConfChangeSingle{{Type: new(pb.ConfChangeType(t1)), NodeId: new(id1)}}})
	}
	vpAssert(err == nil, "API/propose-conf-change-accepted")
	post := vpViewOf(r.raftLog)
	vpAssert(post.last == pre.last+1, "API/propose-conf-change-appends-one-entry")
	if post.last != pre.last+1 {
		return
	}
	e := r.raftLog.unstable.entries[len(r.raftLog.unstable.entries)-1]
	vpAssert(vpAnd(e.GetType() == wantType, e.GetIndex() == pre.last+1, e.GetTerm() == r.Term, r.pendingConfIndex == pre.last+1), "API/propose-conf-change-entry-type-and-position")
	if e.GetType() == pb.EntryConfChange {
		var cc pb.ConfChange
		vpAssert(proto.Unmarshal(e.GetData(), &cc) == nil, "API/propose-conf-change-decodes")
		vpAssert(vpAnd(uint32(cc.GetType()) == t1, cc.GetNodeId() == id1), "API/propose-conf-change-round-trips")
	} else if e.GetType() == pb.EntryConfChangeV2 {
		var cc pb.ConfChangeV2
		vpAssert(proto.Unmarshal(e.GetData(), &cc) == nil, "API/propose-conf-change-decodes")
		vpAssert(len(cc.GetChanges()) == 1, "API/propose-conf-change-round-trips")
		if len(cc.GetChanges()) == 1 {
			vpAssert(vpAnd(uint32(cc.GetChanges()[0].GetType()) == t1, cc.GetChanges()[0].GetNodeId() == id1, cc.GetTransition() == pb.ConfChangeTransitionAuto), "API/propose-conf-change-round-trips")
		}
	}
}

func vpH_api_ProposeConfChange_v1() { vpAPIProposeConfChange(false) }
func vpH_api_ProposeConfChange_v2() { vpAPIProposeConfChange(true) }

// RawNode.Step refuses what the network must not inject: local message types
// whose sender is not a local storage thread, and responses from peers this
// node does not track; everything else is handed to raft.Step unchanged. A
// refused message leaves the node untouched.
func vpAPIStepFilter(role StateType) {
	types := []pb.MessageType{pb.MsgHup, pb.MsgBeat, pb.MsgProp, pb.MsgApp, pb.MsgAppResp, pb.MsgVote, pb.MsgVoteResp, pb.MsgSnap, pb.MsgHeartbeat, pb.MsgHeartbeatResp,
		pb.MsgUnreachable, pb.MsgSnapStatus, pb.MsgCheckQuorum, pb.MsgTransferLeader, pb.MsgTimeoutNow, pb.MsgReadIndex, pb.MsgReadIndexResp, pb.MsgPreVote, pb.MsgPreVoteResp,
		pb.MsgStorageAppend, pb.MsgStorageAppendResp, pb.MsgStorageApply, pb.MsgStorageApplyResp, pb.MsgForgetLeader}
	o := vpDefaultOpts(role)
	o.ls, o.lu = 0, 1
	o.plainData = true
	o.leaderPr = false
	nd := vpBuild(o)
	r := nd.r
	rn := &RawNode{raft: r}
	typ := types[vpChoose(len(types))]
	from := vpU64()
	local := typ == pb.MsgHup || typ == pb.MsgBeat || typ == pb.MsgUnreachable || typ == pb.MsgSnapStatus || typ == pb.MsgCheckQuorum ||
		typ == pb.MsgStorageAppend || typ == pb.MsgStorageAppendResp || typ == pb.MsgStorageApply || typ == pb.MsgStorageApplyResp
	resp := typ == pb.MsgAppResp || typ == pb.MsgVoteResp || typ == pb.MsgHeartbeatResp || typ == pb.MsgUnreachable || typ == pb.MsgReadIndexResp ||
		typ == pb.MsgPreVoteResp || typ == pb.MsgStorageAppendResp || typ == pb.MsgStorageApplyResp
	localTarget := vpOr(from == LocalAppendThread, from == LocalApplyThread)
	tracked := false
	for id := uint64(1); id <= 4; id++ {
		if r.trk.Progress[id] != nil && from == id {
			tracked = true
		}
	}
	wantLocalErr := local && !localTarget
	wantPeerErr := !wantLocalErr && resp && !localTarget && !tracked
	if !wantLocalErr && !wantPeerErr {
		return // handed to raft.Step: the step cells decide what happens then
	}
	pre := vpDigestOf(r, nil)
	err := rn.Step(&pb.Message{Type: typ.Enum(), From: new(from), To: new(r.id), Term: new(vpU64())})
	if wantLocalErr {
		vpAssert(err == ErrStepLocalMsg, "API/step-refuses-local-messages-from-the-network")
	} else {
		vpAssert(err == ErrStepPeerNotFound, "API/step-refuses-responses-from-unknown-peers")
	}
	vpDigestsEqual(pre, vpDigestOf(r, nil), "API/step-refused-message-changes-nothing")
}

func vpH_api_StepFilter_F() { vpAPIStepFilter(StateFollower) }
func vpH_api_StepFilter_L() { vpAPIStepFilter(StateLeader) }
