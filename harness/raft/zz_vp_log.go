//go:build verif

package raft

import (
	pb "go.etcd.io/raft/v3/raftpb"
)

// ---------------------------------------------------------------------------
// C16-L1: limitSize
// ---------------------------------------------------------------------------

func vpEntries(n int, k *vpConds) []*pb.Entry {
	var ents []*pb.Entry
	for i := 0; i < n; i++ {
		t, idx := vpU64(), vpU64()
		ents = append(ents, vpEntry(idx, t, k, false))
	}
	return ents
}

func vpSizeOf(e *pb.Entry) uint64 { return uint64(entsSize([]*pb.Entry{e})) }

// vpLimitSpec asserts that got is the maximal non-empty prefix of ents whose
// encoded size fits max (a single entry always fits).
func vpLimitSpec(ents, got []*pb.Entry, max uint64, label string) {
	vpAssert(len(got) <= len(ents), label+"/is-prefix-length")
	if len(got) > len(ents) {
		return
	}
	for i := range got {
		vpAssert(got[i] == ents[i], label+"/is-prefix")
	}
	vpAssert(len(ents) == 0 || len(got) >= 1, label+"/non-empty")
	var sum uint64
	for i := range got {
		sum += vpSizeOf(got[i])
	}
	vpAssert(vpOr(len(got) <= 1, sum <= max), label+"/fits")
	if len(got) >= 1 && len(got) < len(ents) {
		vpAssert(sum+vpSizeOf(ents[len(got)]) > max, label+"/maximal")
	}
}

func vpLimitSize(n int) {
	k := &vpConds{}
	ents := vpEntries(vpChoose(n+1), k)
	k.assume()
	max := vpU64()
	got := limitSize(ents, entryEncodingSize(max))
	vpObserve("limit", uint64(len(got)))
	vpLimitSpec(ents, got, max, "C16/L1/limitSize")
}

func vpH_log_limitSize_3() { vpLimitSize(3) }
func vpH_log_limitSize_4() { vpLimitSize(4) }

// ---------------------------------------------------------------------------
// C18: MemoryStorage refines an abstract log
// ---------------------------------------------------------------------------

type vpAbsLog struct {
	base, baseT uint64
	slots       []vpSlot
}

func vpAbsOf(ms *MemoryStorage) vpAbsLog {
	a := vpAbsLog{base: ms.ents[0].GetIndex(), baseT: ms.ents[0].GetTerm()}
	for _, e := range ms.ents[1:] {
		a.slots = append(a.slots, vpSlotOf(e))
	}
	return a
}

func (a vpAbsLog) last() uint64 { return a.base + uint64(len(a.slots)) }

func (a vpAbsLog) slotAt(i uint64) vpSlot {
	var s vpSlot
	for _, e := range a.slots {
		hit := e.idx == i
		s.term = vpIte(hit, e.term, s.term)
		s.typ = vpIte(hit, e.typ, s.typ)
		s.blob = vpIte(hit, e.blob, s.blob)
		s.dlen = vpIte(hit, e.dlen, s.dlen)
	}
	return s
}

func (a vpAbsLog) termAt(i uint64) uint64 {
	return vpIte(i == a.base, a.baseT, a.slotAt(i).term)
}

// vpStorageWF asserts the representation invariant of MemoryStorage.
func vpStorageWF(ms *MemoryStorage, label string) {
	vpAssert(len(ms.ents) >= 1, label+"/has-dummy")
	b := ms.ents[0].GetIndex()
	for i, e := range ms.ents {
		vpAssert(e.GetIndex() == b+uint64(i), label+"/contiguous")
	}
}

func vpStorageState(maxN int) (*MemoryStorage, vpAbsLog) {
	k := &vpConds{}
	vpConcreteBase = false
	ms := vpStorage(maxN, k, false)
	k.assume()
	return ms, vpAbsOf(ms)
}

func vpStorageAppend(maxN, maxK int) {
	ms, a := vpStorageState(maxN)
	kk := vpChoose(maxK + 1)
	f := vpU64()
	vpAssume(f <= vpMaxIdx)
	var ents []*pb.Entry
	k := &vpConds{}
	for i := 0; i < kk; i++ {
		ents = append(ents, vpEntry(f+uint64(i), vpU64(), k, false))
	}
	k.assume()
	// contract: no gap between the log and the appended entries
	vpAssume(vpOr(kk == 0, f <= a.last()+1))
	err := ms.Append(ents)
	vpAssert(err == nil, "C18/storage/append/no-error")
	vpStorageWF(ms, "C18/storage/append/wf")
	p := vpAbsOf(ms)
	vpAssert(vpAnd(p.base == a.base, p.baseT == a.baseT), "C18/storage/append/base-unchanged")
	lastNew := f + uint64(kk) - 1
	noop := vpOr(kk == 0, lastNew < a.base+1)
	vpAssert(vpImplies(noop, p.last() == a.last()), "C18/storage/append/noop-length")
	vpAssert(vpImplies(!noop, p.last() == lastNew), "C18/storage/append/new-last")
	j := vpU64()
	in := vpAnd(j > p.base, j <= p.last())
	fromNew := vpAnd(!noop, j >= f)
	var newSlot vpSlot
	for _, e := range ents {
		s := vpSlotOf(e)
		hit := e.GetIndex() == j
		newSlot.term = vpIte(hit, s.term, newSlot.term)
		newSlot.typ = vpIte(hit, s.typ, newSlot.typ)
		newSlot.blob = vpIte(hit, s.blob, newSlot.blob)
		newSlot.dlen = vpIte(hit, s.dlen, newSlot.dlen)
	}
	vpAssert(vpImplies(vpAnd(in, fromNew), vpSlotEq(p.slotAt(j), newSlot)), "C18/storage/append/new-entries")
	vpAssert(vpImplies(vpAnd(in, !fromNew), vpSlotEq(p.slotAt(j), a.slotAt(j))), "C18/storage/append/old-prefix-kept")
}

func vpH_log_storageAppend_2_2() { vpStorageAppend(2, 2) }
func vpH_log_storageAppend_3_3() { vpStorageAppend(3, 3) }

func vpStorageCompact(maxN int) {
	ms, a := vpStorageState(maxN)
	ci := vpU64()
	vpAssume(ci <= a.last()) // beyond the last index is the documented panic
	err := ms.Compact(ci)
	vpAssert((err == ErrCompacted) == (ci <= a.base), "C18/storage/compact/errcompacted-iff")
	vpAssert(err == nil || err == ErrCompacted, "C18/storage/compact/only-errcompacted")
	vpStorageWF(ms, "C18/storage/compact/wf")
	p := vpAbsOf(ms)
	if err != nil {
		vpAssert(vpAnd(p.base == a.base, p.last() == a.last()), "C18/storage/compact/rejected-unchanged")
		return
	}
	vpAssert(vpAnd(p.base == ci, p.baseT == a.termAt(ci), p.last() == a.last()), "C18/storage/compact/new-base")
	j := vpU64()
	vpAssert(vpImplies(vpAnd(j > ci, j <= p.last()), vpSlotEq(p.slotAt(j), a.slotAt(j))), "C18/storage/compact/suffix-kept")
}

func vpH_log_storageCompact_2() { vpStorageCompact(2) }
func vpH_log_storageCompact_3() { vpStorageCompact(3) }

func vpStorageSnapshots(maxN int) {
	ms, a := vpStorageState(maxN)
	oldSnapIdx := ms.snapshot.GetMetadata().GetIndex()
	switch vpChoose(2) {
	case 0:
		i := vpU64()
		vpAssume(i <= a.last())
		data := vpBytes(vpMaxSize)
		cs := vpConfState(vpShapes[vpChoose(2)])
		snap, err := ms.CreateSnapshot(i, cs, data)
		vpAssert((err == ErrSnapOutOfDate) == (i <= oldSnapIdx), "C18/storage/createsnap/outofdate-iff")
		if err != nil {
			vpAssert(ms.snapshot.GetMetadata().GetIndex() == oldSnapIdx, "C18/storage/createsnap/rejected-unchanged")
			return
		}
		vpAssert(vpAnd(snap.GetMetadata().GetIndex() == i, snap.GetMetadata().GetTerm() == a.termAt(i)), "C18/storage/createsnap/metadata")
		vpAssert(vpBlobID(snap.GetData()) == vpBlobID(data), "C18/storage/createsnap/data")
		vpAssert(snap != ms.snapshot, "C18/storage/createsnap/returns-copy")
		p := vpAbsOf(ms)
		vpAssert(vpAnd(p.base == a.base, p.last() == a.last()), "C18/storage/createsnap/log-untouched")
	case 1:
		si, st := vpU64(), vpU64()
		snap := &pb.Snapshot{Metadata: &pb.SnapshotMetadata{Index: new(si), Term: new(st), ConfState: vpConfState(vpShapes[0])}, Data: vpBytes(vpMaxSize)}
		err := ms.ApplySnapshot(snap)
		vpAssert((err == ErrSnapOutOfDate) == vpAnd(oldSnapIdx != 0, oldSnapIdx >= si), "C18/storage/applysnap/outofdate-iff")
		p := vpAbsOf(ms)
		if err != nil {
			vpAssert(vpAnd(p.base == a.base, p.last() == a.last()), "C18/storage/applysnap/rejected-unchanged")
			return
		}
		vpAssert(vpAnd(p.base == si, p.baseT == st, len(p.slots) == 0), "C18/storage/applysnap/reset-to-base")
		vpAssert(ms.snapshot != snap, "C18/storage/applysnap/stores-copy")
		fi, _ := ms.FirstIndex()
		li, _ := ms.LastIndex()
		vpAssert(vpAnd(fi == si+1, li == si), "C18/storage/applysnap/first-last")
	}
}

func vpH_log_storageSnapshots_2() { vpStorageSnapshots(2) }

func vpStorageQueries(maxN int) {
	ms, a := vpStorageState(maxN)
	fi, _ := ms.FirstIndex()
	li, _ := ms.LastIndex()
	vpAssert(vpAnd(fi == a.base+1, li == a.last()), "C18/storage/query/first-last")
	i := vpU64()
	vpAssume(i <= vpMaxIdx*4) // indexes near 2^64 are outside every claim (DESIGN 2.4)
	t, err := ms.Term(i)
	vpAssert((err == ErrCompacted) == (i < a.base), "C18/storage/query/term-compacted-iff")
	vpAssert((err == ErrUnavailable) == (i > a.last()), "C18/storage/query/term-unavailable-iff")
	if err == nil {
		vpAssert(t == a.termAt(i), "C18/storage/query/term-value")
	}
	lo, hi, max := vpU64(), vpU64(), vpU64()
	vpAssume(vpAnd(lo <= hi, hi <= a.last()+1, max <= vpMaxSize*4)) // hi beyond last+1 is the documented panic
	ents, err := ms.Entries(lo, hi, max)
	vpAssert((err == ErrCompacted) == (lo <= a.base), "C18/storage/query/entries-compacted-iff")
	if err == ErrUnavailable {
		vpAssert(len(a.slots) == 0, "C18/storage/query/entries-unavailable-only-when-empty")
		return
	}
	if err != nil {
		return
	}
	vpObserve("entries", uint64(len(ents)))
	// a prefix of [lo, hi) within the size budget
	var want []*pb.Entry
	for _, e := range ms.ents[1:] {
		if e.GetIndex() >= lo && e.GetIndex() < hi {
			want = append(want, e)
		}
	}
	vpLimitSpec(want, ents, max, "C18/storage/query/entries")
	vpAssert(cap(ents) == len(ents), "C18/storage/query/entries-cap-protected")
}

func vpH_log_storageQueries_2() { vpStorageQueries(2) }
func vpH_log_storageQueries_3() { vpStorageQueries(3) }

// ---------------------------------------------------------------------------
// C18: raftLog queries agree with the abstract view
// ---------------------------------------------------------------------------

func vpLogState(ls, lu int, snap bool) (*raftLog, vpView) {
	k := &vpConds{}
	o := vpOpts{ls: ls, lu: lu, unstSnap: snap}
	raftLogger = vpLog
	l, _ := vpBuildLog(o, k)
	term := vpU64()
	k.bound(term <= vpMaxIdx)
	vpInvLog(k, l, term)
	k.assume()
	return l, vpViewOf(l)
}

func vpLogQueries(ls, lu int) { vpLogQueriesCase(ls, lu, -1) }

func vpLogQueriesCase(ls, lu int, only int) {
	l, v := vpLogState(ls, lu, only < 0)
	vpAssert(vpAnd(l.firstIndex() == v.first, l.lastIndex() == v.last), "C18/log/first-last")
	i := vpU64()
	vpAssume(i <= vpMaxIdx*4) // indexes near 2^64 are outside every claim (DESIGN 2.4)
	t, err := l.term(i)
	vpAssert((err == ErrCompacted) == (i+1 < v.first), "C18/log/term-compacted-iff")
	vpAssert((err == ErrUnavailable) == (i > v.last), "C18/log/term-unavailable-iff")
	if err == nil {
		vpAssert(t == v.termAt(i), "C18/log/term-value")
		vpObserve("term", t)
	}
	which := only
	if which < 0 {
		which = vpChoose(4)
	}
	switch which {
	case 0:
		tt := vpU64()
		vpAssert(l.matchTerm(entryID{term: tt, index: i}) == vpAnd(i+1 >= v.first, i <= v.last, v.termAt(i) == tt), "C18/log/matchTerm")
	case 1:
		tt := vpU64()
		lastT := v.termAt(v.last)
		want := vpOr(tt > lastT, vpAnd(tt == lastT, i >= v.last))
		vpAssert(l.isUpToDate(entryID{term: tt, index: i}) == want, "C18/log/isUpToDate")
	case 2:
		tt := vpU64()
		vpAssume(i <= v.last)
		gi, gt := l.findConflictByTerm(i, tt)
		vpObserve("fcbt", gi, gt)
		// result: the largest index <= i whose term is <= tt, or the edge of the
		// available log (then the reported term is 0 or the base term)
		vpAssert(gi <= i, "C18/log/findConflictByTerm/not-above")
		vpAssert(vpOr(gt == 0, vpAnd(gt == v.termAt(gi), gt <= tt)), "C18/log/findConflictByTerm/term-le")
		j := vpU64()
		vpAssert(vpImplies(vpAnd(j > gi, j <= i, j+1 >= v.first), v.termAt(j) > tt), "C18/log/findConflictByTerm/skipped-are-larger")
	case 3:
		lo, hi, max := vpU64(), vpU64(), vpU64()
		vpAssume(vpAnd(lo <= hi, hi <= v.last+1)) // outside is the internal panic
		ents, err := l.slice(lo, hi, entryEncodingSize(max))
		vpAssert((err == ErrCompacted) == (lo < v.first), "C18/log/slice-compacted-iff")
		if err != nil {
			return
		}
		vpObserve("slice", uint64(len(ents)))
		vpAssert((len(ents) == 0) == (lo == hi), "C18/log/slice-empty-iff-empty-range")
		var sum uint64
		for k, e := range ents {
			idx := lo + uint64(k)
			vpAssert(vpAnd(e.GetIndex() == idx, idx < hi, vpSlotEq(vpSlotOf(e), v.slotAt(idx))), "C18/log/slice-contiguous-log-entries")
			sum += vpSizeOf(e)
		}
		vpAssert(vpOr(len(ents) <= 1, sum <= max), "C18/log/slice-fits")
		vpAssert(uint64(len(ents)) <= hi-lo, "C18/log/slice-within-range")
		vpAssert(cap(ents) == len(ents), "C18/log/slice-cap-protected")
	}
}

func vpH_log_queries_1_1() { vpLogQueries(1, 1) }
func vpH_log_slice_2_1()   { vpLogQueriesCase(2, 1, 3) }
func vpH_log_term_2_1()    { vpLogQueriesCase(2, 1, 4) } // first/last/term only; storage may be longer than the log
func vpH_log_queries_2_2() { vpLogQueries(2, 2) }

// ---------------------------------------------------------------------------
// C18 / C03-M1: raftLog.maybeAppend and unstable bookkeeping
// ---------------------------------------------------------------------------

func vpLogMaybeAppend(ls, lu, maxK int) {
	l, v := vpLogState(ls, lu, false)
	kk := vpChoose(maxK + 1)
	prevI, prevT, commit := vpU64(), vpU64(), vpU64()
	k := &vpConds{}
	k.bound(prevI <= vpMaxIdx)
	var ents []*pb.Entry
	pt := prevT
	for i := 0; i < kk; i++ {
		t := vpU64()
		k.add(t >= pt)
		k.add(t >= 1)
		k.bound(t <= vpMaxIdx)
		e := vpEntry(prevI+uint64(i)+1, t, k, false)
		// V-app: agreement with the committed prefix
		k.add(vpImplies(vpAnd(e.GetIndex() <= l.committed, v.has(e.GetIndex())), t == v.termAt(e.GetIndex())))
		ents = append(ents, e)
		pt = t
	}
	k.assume()
	// handleAppendEntries calls maybeAppend only when prev.index >= committed
	vpAssume(prevI >= l.committed)
	// V-hb analogue: the leader's commit index is within what it sent or known
	a := logSlice{term: pt, prev: entryID{term: prevT, index: prevI}, entries: ents}
	// what an earlier Ready handed to the application / append thread
	handed := vpHanded{ents: l.unstable.entries}
	for _, e := range handed.ents {
		handed.slots = append(handed.slots, vpSlotOf(e))
	}
	lastNew, ok := l.maybeAppend(a, commit)
	handed.check("M4/handed-out-entries-never-rewritten")
	p := vpViewOf(l)
	matched := vpAnd(prevI+1 >= v.first, prevI <= v.last, v.termAt(prevI) == prevT)
	vpAssert(ok == matched, "M1/append-iff-prev-matches")
	vpObserve("maybeAppend", vpB2U(ok), lastNew, p.last, p.committed)
	j := vpU64()
	if !ok {
		vpAssert(vpAnd(p.last == v.last, p.first == v.first, p.committed == v.committed), "M1/reject-leaves-log")
		vpAssert(vpImplies(v.has(j), vpSlotEq(p.slotAt(j), v.slotAt(j))), "M1/reject-leaves-entries")
		return
	}
	vpAssert(lastNew == prevI+uint64(kk), "M1/last-new-index")
	// first index at which the receiver's log and the slice disagree (0 if none)
	var ci uint64
	for i := len(ents) - 1; i >= 0; i-- {
		e := ents[i]
		c := vpOr(!v.has(e.GetIndex()), v.termAt(e.GetIndex()) != e.GetTerm())
		ci = vpIte(c, e.GetIndex(), ci)
	}
	// the slice is in the log afterwards: same (index, term) everywhere, and the
	// very entries of the message from the first disagreement on (below it the
	// receiver keeps its own entries, which log matching makes identical)
	for _, e := range ents {
		vpAssert(vpAnd(p.has(e.GetIndex()), p.termAt(e.GetIndex()) == e.GetTerm()), "M1/slice-present")
		vpAssert(vpImplies(vpAnd(ci != 0, e.GetIndex() >= ci), vpSlotEq(p.slotAt(e.GetIndex()), vpSlotOf(e))), "M1/appended-entries-are-the-message-entries")
		vpAssert(vpImplies(vpOr(ci == 0, e.GetIndex() < ci), vpSlotEq(p.slotAt(e.GetIndex()), v.slotAt(e.GetIndex()))), "M1/matching-entries-kept")
	}
	// everything at or below prev is untouched
	vpAssert(vpImplies(vpAnd(v.has(j), j <= prevI), vpAnd(p.has(j), vpSlotEq(p.slotAt(j), v.slotAt(j)))), "M1/prefix-kept")
	// first conflicting index (0 if none)
	conflict := false
	for _, e := range ents {
		c := vpOr(!v.has(e.GetIndex()), v.termAt(e.GetIndex()) != e.GetTerm())
		conflict = vpOr(conflict, c)
	}
	vpAssert(vpImplies(!conflict, vpAnd(p.last == v.last, vpImplies(v.has(j), vpSlotEq(p.slotAt(j), v.slotAt(j))))), "M1/no-conflict-keeps-longer-tail")
	vpAssert(vpImplies(conflict, p.last == lastNew), "M1/conflict-truncates-to-slice")
	// Q5
	want := vpIte(commit < lastNew, commit, lastNew)
	vpAssert(p.committed == vpIte(want > v.committed, want, v.committed), "Q5/follower-commit")
	ki := &vpConds{post: true}
	vpInvLog(ki, l, ^uint64(0))
	ki.assertEach("Inv/post")
}

func vpH_log_maybeAppend_1_1_2() { vpLogMaybeAppend(1, 1, 2) }
func vpH_log_maybeAppend_0_2_1() { vpLogMaybeAppend(0, 2, 1) }
func vpH_log_maybeAppend_2_2_2() { vpLogMaybeAppend(2, 2, 2) }

func vpLogUnstableOps(ls, lu int) {
	l, v := vpLogState(ls, lu, true)
	u := &l.unstable
	j := vpU64()
	switch vpChoose(4) {
	case 0: // stableTo never changes the logical log when storage holds the entries
		id := entryID{term: vpU64(), index: vpU64()}
		preOff, preLen := u.offset, len(u.entries)
		l.stableTo(id)
		moved := u.offset != preOff
		vpAssert(vpImplies(moved, vpAnd(id.index >= preOff, id.index < preOff+uint64(preLen), v.termAt(id.index) == id.term, !vpAnd(v.hasSnap, id.index == v.snapIdx))), "C18/unstable/stableTo-only-on-match")
		vpAssert(vpImplies(moved, u.offset == id.index+1), "C18/unstable/stableTo-new-offset")
		vpAssert(vpAnd(u.offsetInProgress >= u.offset, u.offsetInProgress <= u.offset+uint64(len(u.entries))), "C18/unstable/stableTo-inprogress-in-range")
		// remaining unstable entries are the same objects
		for _, e := range u.entries {
			vpAssert(vpSlotEq(vpSlotOf(e), v.slotAt(e.GetIndex())), "C18/unstable/stableTo-keeps-rest")
		}
		vpAssert(uint64(len(u.entries)) == preOff+uint64(preLen)-u.offset, "C18/unstable/stableTo-length")
	case 1:
		next := u.nextEntries()
		vpAssert(uint64(len(next)) == u.offset+uint64(len(u.entries))-u.offsetInProgress, "C18/unstable/next-entries-count")
		for _, e := range next {
			vpAssert(e.GetIndex() >= u.offsetInProgress, "C18/unstable/next-entries-not-in-progress")
		}
		l.acceptUnstable()
		vpAssert(u.offsetInProgress == u.offset+uint64(len(u.entries)), "C18/unstable/accept-all-in-progress")
		vpAssert(len(u.nextEntries()) == 0, "C18/unstable/accept-then-nothing-next")
		vpAssert(vpImplies(v.hasSnap, vpAnd(u.snapshotInProgress, u.nextSnapshot() == nil)), "C18/unstable/accept-snapshot-in-progress")
	case 2:
		si := vpU64()
		l.stableSnapTo(si)
		vpAssert((u.snapshot == nil) == vpOr(!v.hasSnap, si == v.snapIdx), "C18/unstable/stableSnapTo-iff-index")
		vpAssert(vpImplies(u.snapshot == nil, !u.snapshotInProgress), "C18/unstable/stableSnapTo-clears-flag")
	case 3:
		si, st := vpU64(), vpU64()
		vpAssume(vpAnd(si <= vpMaxIdx, si > l.committed))
		s := &pb.Snapshot{Metadata: &pb.SnapshotMetadata{Index: new(si), Term: new(st), ConfState: vpConfState(vpShapes[0])}, Data: vpBytes(vpMaxSize)}
		l.restore(s)
		p := vpViewOf(l)
		vpAssert(vpAnd(p.first == si+1, p.last == si, p.committed == si, p.hasSnap, p.snapIdx == si, p.snapTerm == st, len(u.entries) == 0, !u.snapshotInProgress, u.offsetInProgress == u.offset), "S1/log-restore")
		vpAssert(u.snapshot != s, "S1/log-restore-copies")
		t, err := l.term(si)
		vpAssert(vpAnd(err == nil, t == st), "S1/log-restore-term")
	}
	_ = j
}

func vpH_log_unstableOps_1_2() { vpLogUnstableOps(1, 2) }
func vpH_log_unstableOps_2_2() { vpLogUnstableOps(2, 2) }
