//go:build verif

package raft

import (
	pb "go.etcd.io/raft/v3/raftpb"
)

// ---------------------------------------------------------------------------
// F-tick: bounded-time obligations (C17-K5, C15-W3, W6)
// ---------------------------------------------------------------------------

func vpTickOpts(role StateType, shape int) vpOpts {
	o := vpOpts{role: role, shapes: []int{shape}, ls: 1, lu: 1, plainData: true}
	if role == StateLeader {
		o.leaderPr = true
		o.symPeers = 1
		o.inflPeers = 1
	}
	return o
}

// K5: a leader with CheckQuorum that hears from nobody steps down within two
// election timeouts.
func vpTickCheckQuorum(et int, shape int) {
	nd := vpBuild(vpTickOpts(StateLeader, shape))
	r := nd.r
	vpAssume(vpAnd(r.checkQuorum, r.electionTimeout == et, r.heartbeatTimeout == 1, r.electionElapsed < et, r.heartbeatElapsed == 0))
	term := r.Term
	leading := true
	for i := 0; i < 2*et; i++ {
		r.tick()
		// drop everything it sends; nothing arrives
		r.msgs = nil
		r.msgsAfterAppend = nil
		if leading && r.state != StateLeader {
			leading = false
			vpAssert(vpAnd(r.state == StateFollower, r.Term == term, r.lead == None), "K5/steps-down-in-its-own-term")
		}
	}
	vpObserve("k5", uint64(r.state))
	vpAssert(r.state != StateLeader, "K5/silent-leader-steps-down-within-two-timeouts")
	ki := &vpConds{post: true}
	vpInvInto(ki, r)
	ki.assertEach("Inv/post")
}

func vpH_tick_CheckQuorum_et2() { vpTickCheckQuorum(2, 0) }
func vpH_tick_CheckQuorum_et3() { vpTickCheckQuorum(3, 0) }
func vpH_tick_CheckQuorum_et2_joint() { vpTickCheckQuorum(2, 1) }

// K5 second form: once every peer is marked inactive, one election timeout is enough.
func vpH_tick_CheckQuorum_inactive_et2() {
	nd := vpBuild(vpTickOpts(StateLeader, 0))
	r := nd.r
	vpAssume(vpAnd(r.checkQuorum, r.electionTimeout == 2, r.heartbeatTimeout == 1, r.electionElapsed < 2, r.heartbeatElapsed == 0,
		!r.trk.Progress[2].RecentActive, !r.trk.Progress[3].RecentActive))
	for i := 0; i < 2; i++ {
		r.tick()
		r.msgs = nil
		r.msgsAfterAppend = nil
	}
	vpAssert(r.state == StateFollower, "K5/inactive-quorum-steps-down-within-one-timeout")
}

// The singleton leader never steps down on its own.
func vpH_tick_CheckQuorum_singleton() {
	nd := vpBuild(vpTickOpts(StateLeader, 6))
	r := nd.r
	vpAssume(vpAnd(r.checkQuorum, r.electionTimeout == 2, r.heartbeatTimeout == 1, r.electionElapsed < 2, r.heartbeatElapsed == 0))
	for i := 0; i < 4; i++ {
		r.tick()
		r.msgs = nil
		r.msgsAfterAppend = nil
	}
	vpAssert(r.state == StateLeader, "K5/sole-voter-keeps-leading")
}

// W3: a leadership transfer that does not complete is abandoned after one
// election timeout.
func vpH_tick_TransferAbort_et2() {
	nd := vpBuild(vpTickOpts(StateLeader, 0))
	r := nd.r
	vpAssume(vpAnd(r.electionTimeout == 2, r.heartbeatTimeout == 1, r.electionElapsed < 2, r.heartbeatElapsed == 0, r.leadTransferee != None))
	for i := 0; i < 2; i++ {
		r.tick()
		r.msgs = nil
		r.msgsAfterAppend = nil
	}
	vpAssert(r.leadTransferee == None, "W3/transfer-aborted-after-election-timeout")
}

// W6: a promotable follower or candidate that hears nothing campaigns within
// its randomized election timeout.
func vpTickElection(role StateType) {
	nd := vpBuild(vpTickOpts(role, 0))
	r := nd.r
	vpAssume(vpAnd(r.electionTimeout == 2, r.heartbeatTimeout == 1, r.electionElapsed == 0))
	// no committed-but-unapplied configuration change (plainData: all entries are normal)
	vpAssert(vpAnd(r.randomizedElectionTimeout >= 2, r.randomizedElectionTimeout <= 3), "W6/randomized-timeout-range")
	term := r.Term
	campaigned := false
	for i := 0; i < 3; i++ {
		n := len(r.msgs)
		r.tick()
		for _, m := range r.msgs[n:] {
			if m.GetType() == pb.MsgVote || m.GetType() == pb.MsgPreVote {
				campaigned = true
			}
		}
		// the timeout is re-drawn on every reset; keep it inside the model
	}
	vpObserve("w6", uint64(r.state))
	vpAssert(campaigned, "W6/silent-follower-campaigns-within-randomized-timeout")
	vpAssert(vpImplies(!r.preVote, r.Term > term), "W6/campaign-raises-term-without-prevote")
	vpAssert(vpAnd(r.randomizedElectionTimeout >= 2, r.randomizedElectionTimeout <= 3), "W6/randomized-timeout-range-after-reset")
}

func vpH_tick_Election_F() { vpTickElection(StateFollower) }
func vpH_tick_Election_C() { vpTickElection(StateCandidate) }
func vpH_tick_Election_P() { vpTickElection(StatePreCandidate) }
