//go:build verif

package raft

import (
	pb "go.etcd.io/raft/v3/raftpb"
	"go.etcd.io/raft/v3/tracker"
)

// ---------------------------------------------------------------------------
// Logger: Panic*/Fatal* panic, everything else is a no-op (DESIGN 2.6).
// ---------------------------------------------------------------------------

type vpLogger struct{}

func (vpLogger) Debug(v ...any)                   {}
func (vpLogger) Debugf(format string, v ...any)   {}
func (vpLogger) Error(v ...any)                   {}
func (vpLogger) Errorf(format string, v ...any)   {}
func (vpLogger) Info(v ...any)                    {}
func (vpLogger) Infof(format string, v ...any)    {}
func (vpLogger) Warning(v ...any)                 {}
func (vpLogger) Warningf(format string, v ...any) {}
func (vpLogger) Fatal(v ...any)                   { panic("vp: logger.Fatal") }
func (vpLogger) Fatalf(format string, v ...any)   { panic("vp: logger.Fatalf") }
func (vpLogger) Panic(v ...any)                   { panic("vp: logger.Panic") }
func (vpLogger) Panicf(format string, v ...any)   { panic("vp: logger.Panicf") }

var vpLog Logger = vpLogger{}

func init() {
	vpOnReset = func() {
		vpFromOnly = 0
		vpConcreteBase = false
		vpCellAssume = nil
		vpApplyConfPeers = false
		vpApplyConfRemove = 0
	}
}

const (
	vpMaxIdx  = uint64(1) << 40 // indexes, terms
	vpMaxSize = uint64(1) << 40 // byte sizes
)

func vpMin(a, b uint64) uint64 { return vpIte(a < b, a, b) }

// vpConds accumulates the clauses of an assumption / invariant.
type vpConds struct {
	c    []bool
	n    []string
	post bool // collecting for a post-state assertion: bounds are skipped
}

func (k *vpConds) add(b bool) {
	k.c = append(k.c, b)
	k.n = append(k.n, vpCaller())
}

// bound records a clause that limits the explored value range: assumed on
// the pre-state, never asserted on the post-state.
func (k *vpConds) bound(b bool) {
	if k.post {
		return
	}
	k.c = append(k.c, b)
	k.n = append(k.n, vpCaller())
}
func (k *vpConds) all() bool            { return vpAnd(k.c...) }
func (k *vpConds) assume()              { vpAssume(vpAnd(k.c...)) }
func (k *vpConds) assertEach(lb string) { vpAssertEach(lb, k.c, k.n) }

// ---------------------------------------------------------------------------
// Configuration shapes (ids are concrete 1..U, self = 1)
// ---------------------------------------------------------------------------

type vpShape struct {
	in, out, learners, learnersNext []uint64
	autoLeave                       bool
}

// The menu of configuration shapes. Shape 0 is the plain three-voter group.
var vpShapes = []vpShape{
	{in: []uint64{1, 2, 3}},                                                        // 0 simple
	{in: []uint64{1, 2, 3}, out: []uint64{1, 2}},                                   // 1 joint, adding 3
	{in: []uint64{2, 3}, out: []uint64{1, 2, 3}},                                   // 2 joint, self only in outgoing
	{in: []uint64{1, 2}, learners: []uint64{3}},                                    // 3 learner peer
	{in: []uint64{2, 3}, learners: []uint64{1}},                                    // 4 self is learner
	{in: []uint64{2, 3}},                                                           // 5 self removed
	{in: []uint64{1}},                                                              // 6 singleton self
	{in: []uint64{1, 2}, out: []uint64{1, 2, 3}, learnersNext: []uint64{3}, autoLeave: true}, // 7 joint with staged demotion
	{in: []uint64{2}},                                                              // 8 singleton other, self removed
	{in: []uint64{1, 2}},                                                           // 9 two voters
	{in: []uint64{1, 0x5000000000000000, 0xA000000000000000, 0xF000000000000000}},  // 10 ids spread over the uint64 range
	{in: []uint64{2}, learners: []uint64{1}},                                       // 11 one other voter, self demoted to learner
	{in: []uint64{1}, out: []uint64{1, 2, 3}},                                      // 12 joint, shrinking to the single voter self
}

// vpSnapShapes: how many of the shapes above the ConfState of a symbolic snapshot ranges over
const vpSnapShapes = 11

func vpSet(ids []uint64) map[uint64]struct{} {
	if len(ids) == 0 {
		return nil
	}
	m := map[uint64]struct{}{}
	for _, id := range ids {
		m[id] = struct{}{}
	}
	return m
}

func vpContains(ids []uint64, id uint64) bool {
	for _, x := range ids {
		if x == id {
			return true
		}
	}
	return false
}

func (s vpShape) members() []uint64 {
	var out []uint64
	for _, l := range [][]uint64{s.in, s.out, s.learners, s.learnersNext} {
		for _, id := range l {
			if !vpContains(out, id) {
				out = append(out, id)
			}
		}
	}
	// ascending (insertion sort; ids are concrete)
	for i := 1; i < len(out); i++ {
		for j := i; j > 0 && out[j-1] > out[j]; j-- {
			out[j-1], out[j] = out[j], out[j-1]
		}
	}
	return out
}

// ---------------------------------------------------------------------------
// State construction
// ---------------------------------------------------------------------------

type vpOpts struct {
	role      StateType
	shapes    []int // allowed shape numbers (chosen by vpChoose)
	ls, lu    int   // max storage / unstable entries
	unstSnap  bool  // allow a pending unstable snapshot
	leaderPr  bool  // fully symbolic Progress (leader cells)
	inflights int   // Inflights size (leader cells), 0 = 2
	reads     int   // max queued unconfirmed read requests (leader)
	pendReads int   // max postponed MsgReadIndex (leader)
	votes     bool  // symbolic votes map (candidates)
	plainData bool  // log entries: type fixed to EntryNormal
	inflPeers int   // number of peers (2, 3) whose in-flight window is non-trivial; 0 = all
	symPeers  int   // number of peers with fully symbolic Progress; 0 = all. The others are caught-up replicas.
	concBase  bool  // the storage's compaction index is a concrete choice (0 or 7) instead of a symbolic value
	noSizeLimit bool // maxMsgSize and maxApplyingEntsSize are "no limit" (size-limit behaviour is decided in dedicated cells)
}

// vpNode is a constructed node plus the facts the harness remembers about it.
type vpNode struct {
	r     *raft
	ms    *MemoryStorage
	shape vpShape
	conds *vpConds
}

func vpEntry(index, term uint64, k *vpConds, plain bool) *pb.Entry {
	var typ uint32
	if !plain {
		typ = vpU32()
		k.add(typ <= 2)
	}
	return &pb.Entry{Index: new(index), Term: new(term), Type: new(pb.EntryType(typ)), Data: vpBytes(vpMaxSize)}
}

func vpConfState(s vpShape) *pb.ConfState {
	return &pb.ConfState{Voters: s.in, VotersOutgoing: s.out, Learners: s.learners, LearnersNext: s.learnersNext, AutoLeave: new(s.autoLeave)}
}

// vpStorage builds a MemoryStorage: dummy entry (s, ts), n <= maxN entries.
// vpConcreteBase makes vpStorage pick the compaction index from {0, 7}.
var vpConcreteBase bool

func vpStorage(maxN int, k *vpConds, plain bool) *MemoryStorage {
	s, ts := vpU64(), vpU64()
	if vpConcreteBase {
		if vpChoose(2) == 0 {
			vpAssume(vpAnd(s == 0, ts == 0))
			s, ts = 0, 0
		} else {
			vpAssume(s == 7)
			s = 7
		}
	}
	k.add(s <= vpMaxIdx)
	k.add(ts <= vpMaxIdx)
	k.add((s == 0) == (ts == 0))
	n := vpChoose(maxN + 1)
	ms := &MemoryStorage{}
	ms.ents = make([]*pb.Entry, 1+n)
	ms.ents[0] = &pb.Entry{Index: new(s), Term: new(ts)}
	prev := ts
	for i := 1; i <= n; i++ {
		t := vpU64()
		k.add(t >= prev)
		k.add(t >= 1)
		k.add(t <= vpMaxIdx)
		ms.ents[i] = vpEntry(s+uint64(i), t, k, plain)
		prev = t
	}
	// storage contract: a snapshot exists at an index >= the compaction point
	// (and <= applied, added by vpInvLog); none is needed while nothing is compacted
	si := vpU64()
	k.add(si >= s)
	k.add(si <= s+uint64(n))
	st := vpStorageTermAt(ms, si)
	ms.snapshot = &pb.Snapshot{Metadata: &pb.SnapshotMetadata{Index: new(si), Term: new(st), ConfState: &pb.ConfState{AutoLeave: new(false)}}, Data: vpBytes(vpMaxSize)}
	return ms
}

// vpStorageTermAt: term of storage slot at index i (0 if outside), non-branching.
func vpStorageTermAt(ms *MemoryStorage, i uint64) uint64 {
	var t uint64
	for _, e := range ms.ents {
		t = vpIte(e.GetIndex() == i, e.GetTerm(), t)
	}
	return t
}

func vpBuildLog(o vpOpts, k *vpConds) (*raftLog, *MemoryStorage) {
	vpConcreteBase = o.concBase
	ms := vpStorage(o.ls, k, o.plainData)
	n := uint64(len(ms.ents) - 1)
	s := ms.ents[0].GetIndex()
	l := &raftLog{storage: ms, logger: vpLog}
	l.unstable.logger = vpLog
	m := vpChoose(o.lu + 1)
	hasSnap := o.unstSnap && vpChoose(2) == 1
	var prevTerm uint64
	if hasSnap {
		usi, ust := vpU64(), vpU64()
		k.add(usi >= 1)
		k.add(ust >= 1)
		k.add(usi <= vpMaxIdx)
		k.add(ust <= vpMaxIdx)
		l.unstable.snapshot = &pb.Snapshot{Metadata: &pb.SnapshotMetadata{Index: new(usi), Term: new(ust), ConfState: &pb.ConfState{AutoLeave: new(false)}}, Data: vpBytes(vpMaxSize)}
		l.unstable.offset = usi + 1
		l.unstable.snapshotInProgress = vpBool()
		prevTerm = ust
	} else {
		d := vpU64() // number of storage entries shadowed by the unstable log
		k.add(d <= n)
		if m == 0 {
			k.add(d == 0)
		}
		l.unstable.offset = s + n + 1 - d
		prevTerm = vpStorageTermAt(ms, l.unstable.offset-1)
	}
	off := l.unstable.offset
	if m > 0 {
		// spare capacity, as append-grown slices have: exposes in-place appends
		l.unstable.entries = make([]*pb.Entry, m, m+2)
	}
	for i := 0; i < m; i++ {
		t := vpU64()
		k.add(t >= prevTerm)
		k.add(t >= 1)
		k.add(t <= vpMaxIdx)
		l.unstable.entries[i] = vpEntry(off+uint64(i), t, k, o.plainData)
		prevTerm = t
	}
	p := vpU64()
	k.add(p <= uint64(m))
	l.unstable.offsetInProgress = off + p
	l.committed, l.applying, l.applied = vpU64(), vpU64(), vpU64()
	if o.noSizeLimit {
		l.maxApplyingEntsSize = noLimit
	} else {
		l.maxApplyingEntsSize = entryEncodingSize(vpU64())
	}
	l.applyingEntsSize = entryEncodingSize(vpU64())
	l.applyingEntsPaused = vpBool()
	return l, ms
}

func vpBuildTracker(o vpOpts, sh vpShape, l *raftLog, k *vpConds) tracker.ProgressTracker {
	size := o.inflights
	if size == 0 {
		size = 2
	}
	maxBytes := vpU64()
	trk := tracker.MakeProgressTracker(size, maxBytes)
	trk.Voters[0] = vpSet(sh.in)
	if trk.Voters[0] == nil {
		trk.Voters[0] = map[uint64]struct{}{}
	}
	trk.Voters[1] = vpSet(sh.out)
	trk.Learners = vpSet(sh.learners)
	trk.LearnersNext = vpSet(sh.learnersNext)
	trk.AutoLeave = sh.autoLeave
	last := l.lastIndex()
	for _, id := range sh.members() {
		pr := &tracker.Progress{Next: last + 1, Inflights: tracker.NewInflights(size, maxBytes), IsLearner: vpContains(sh.learners, id)}
		if id == 1 {
			pr.Match = last
			if o.role == StateLeader {
				pr.State = tracker.StateReplicate
				pr.RecentActive = true
			}
		}
		if o.leaderPr {
			if id == 1 {
				pr.State = tracker.StateReplicate
				pr.Match = vpU64()
				pr.Next = pr.Match + 1
				pr.RecentActive = true
				k.add(pr.Match <= last)
			} else if o.symPeers != 0 && int(id)-1 > o.symPeers {
				// a caught-up, idle replica
				pr.State = tracker.StateReplicate
				pr.Match = last
				pr.Next = last + 1
				pr.RecentActive = vpBool()
				pr.SentCommit(l.committed)
			} else {
				pr.Match, pr.Next = vpU64(), vpU64()
				st := vpU64()
				k.add(st <= 2)
				pr.State = tracker.StateType(st)
				pr.PendingSnapshot = vpU64()
				pr.RecentActive = vpBool()
				pr.MsgAppFlowPaused = vpBool()
				sc := vpU64()
				pr.SentCommit(sc)
				k.add(pr.Match < pr.Next)
				k.add(pr.Match <= last)
				k.add(pr.Next <= last+1)
				k.add(sc <= l.committed)
				k.add(vpImplies(pr.State != tracker.StateSnapshot, pr.PendingSnapshot == 0))
				k.add(vpImplies(pr.State == tracker.StateSnapshot, pr.PendingSnapshot <= last))
				// in-flight window: nin messages with increasing indexes in (Match, Next-1]
				nin := 0
				if o.inflPeers == 0 || int(id)-1 <= o.inflPeers {
					nin = vpChoose(size + 1)
				}
				if nin > 0 {
					k.add(pr.State == tracker.StateReplicate)
				}
				prevIdx := pr.Match
				var sum uint64
				for j := 0; j < nin; j++ {
					idx, by := vpU64(), vpU64()
					k.add(idx > prevIdx)
					k.add(idx <= pr.Next-1)
					k.add(by <= vpMaxSize)
					vpAssume(vpAnd(by <= vpMaxSize, sum <= vpMaxSize*4, vpOr(maxBytes == 0, sum < maxBytes)))
					pr.Inflights.Add(idx, by)
					sum += by
					prevIdx = idx
				}
				if nin > 0 {
					// the last message sent in StateReplicate ends at Next-1
					k.add(prevIdx == pr.Next-1)
				}
			}
		}
		trk.Progress[id] = pr
	}
	return trk
}

// vpBuild constructs a raft node in the requested role. The accumulated
// conditions (representation invariant) are assumed before returning.
func vpBuild(o vpOpts) *vpNode {
	nd := vpBuildNoAssume(o)
	nd.conds.assume()
	return nd
}

// vpBuildNoAssume leaves the accumulated conditions in nd.conds for the caller
// to extend and assume.
func vpBuildNoAssume(o vpOpts) *vpNode {
	k := &vpConds{}
	raftLogger = vpLog
	l, ms := vpBuildLog(o, k)
	shape := vpShapes[o.shapes[vpChoose(len(o.shapes))]]
	r := &raft{id: 1, raftLog: l, logger: vpLog}
	r.trk = vpBuildTracker(o, shape, l, k)
	r.Term, r.Vote, r.lead = vpU64(), vpU64(), vpU64()
	if o.noSizeLimit {
		r.maxMsgSize = noLimit
	} else {
		r.maxMsgSize = entryEncodingSize(vpU64())
	}
	r.maxUncommittedSize = entryPayloadSize(vpU64())
	r.isLearner = vpContains(shape.learners, 1)
	r.checkQuorum, r.preVote = vpBool(), vpBool()
	r.disableProposalForwarding = vpBool()
	r.disableConfChangeValidation = vpBool()
	r.stepDownOnRemoval = vpBool()
	r.electionTimeout, r.heartbeatTimeout = vpInt(), vpInt()
	r.electionElapsed, r.heartbeatElapsed = vpInt(), vpInt()
	r.randomizedElectionTimeout = vpInt()
	ro := vpU64()
	k.add(ro <= 1)
	r.readOnly = newReadOnly(ReadOnlyOption(ro))
	r.state = o.role
	switch o.role {
	case StateFollower:
		r.step = stepFollower
		r.tick = r.tickElection
	case StateCandidate, StatePreCandidate:
		r.step = stepCandidate
		r.tick = r.tickElection
	case StateLeader:
		r.step = stepLeader
		r.tick = r.tickHeartbeat
		r.leadTransferee = vpU64()
		r.pendingConfIndex = vpU64()
		r.uncommittedSize = entryPayloadSize(vpU64())
	}
	if o.votes && (o.role == StateCandidate || o.role == StatePreCandidate) {
		for id := uint64(1); id <= 3; id++ {
			if vpChoose(2) == 1 {
				r.trk.Votes[id] = vpBool()
			}
		}
	}
	if o.role == StateLeader {
		nreads := vpChoose(o.reads + 1)
		for i := 0; i < nreads; i++ {
			from := vpU64()
			req := &pb.Message{Type: pb.MsgReadIndex.Enum(), From: new(from), To: new(uint64(1)), Entries: []*pb.Entry{{Data: vpBytes(vpMaxSize)}}}
			idx := vpU64()
			k.add(idx <= l.committed)
			r.readOnly.unconfirmedReads = append(r.readOnly.unconfirmedReads, &readIndexRequest{req: req, index: idx})
		}
		r.readOnly.confirmedReads = vpU64()
		k.add(r.readOnly.confirmedReads <= vpMaxIdx)
		if nreads > 0 || vpChoose(2) == 1 {
			for _, id := range shape.members() {
				if vpChoose(2) == 1 {
					a := vpU64()
					k.add(a <= r.readOnly.confirmedReads+uint64(nreads))
					r.readOnly.acks[id] = a
				}
			}
		}
		npend := vpChoose(o.pendReads + 1)
		for i := 0; i < npend; i++ {
			from := vpU64()
			r.pendingReadIndexMessages = append(r.pendingReadIndexMessages, &pb.Message{Type: pb.MsgReadIndex.Enum(), From: new(from), To: new(uint64(1)), Entries: []*pb.Entry{{Data: vpBytes(vpMaxSize)}}})
		}
	}
	nd := &vpNode{r: r, ms: ms, shape: shape, conds: k}
	vpInvInto(k, r)
	return nd
}

// ---------------------------------------------------------------------------
// Views of the logical log (non-branching accessors over concrete slots)
// ---------------------------------------------------------------------------

type vpSlot struct {
	idx, term, typ, blob, dlen uint64
}

// vpView is a snapshot of the logical log: storage below unstable.offset, the
// unstable entries above, the unstable snapshot as base when present.
type vpView struct {
	first, last   uint64 // firstIndex(), lastIndex()
	offset        uint64
	hasSnap       bool
	snapIdx       uint64
	snapTerm      uint64
	base, baseT   uint64 // storage dummy entry
	stor, unst    []vpSlot
	committed     uint64
	applied       uint64
	applying      uint64
	offsetInProg  uint64
}

func vpSlotOf(e *pb.Entry) vpSlot {
	return vpSlot{idx: e.GetIndex(), term: e.GetTerm(), typ: uint64(e.GetType()), blob: vpBlobID(e.GetData()), dlen: uint64(len(e.GetData()))}
}

func vpViewOf(l *raftLog) vpView {
	ms := l.storage.(*MemoryStorage)
	v := vpView{offset: l.unstable.offset, committed: l.committed, applied: l.applied, applying: l.applying, offsetInProg: l.unstable.offsetInProgress}
	v.base, v.baseT = ms.ents[0].GetIndex(), ms.ents[0].GetTerm()
	for _, e := range ms.ents[1:] {
		v.stor = append(v.stor, vpSlotOf(e))
	}
	for _, e := range l.unstable.entries {
		v.unst = append(v.unst, vpSlotOf(e))
	}
	if l.unstable.snapshot != nil {
		v.hasSnap = true
		v.snapIdx = l.unstable.snapshot.GetMetadata().GetIndex()
		v.snapTerm = l.unstable.snapshot.GetMetadata().GetTerm()
	}
	v.first = l.firstIndex()
	v.last = l.lastIndex()
	return v
}

// has reports whether index i holds a real entry of the logical log.
func (v vpView) has(i uint64) bool {
	return vpAnd(i >= v.first, i <= v.last)
}

// slotAt returns the logical entry at index i (zero slot if none).
func (v vpView) slotAt(i uint64) vpSlot {
	var s vpSlot
	for _, e := range v.stor {
		hit := vpAnd(e.idx == i, i < v.offset)
		s.term = vpIte(hit, e.term, s.term)
		s.typ = vpIte(hit, e.typ, s.typ)
		s.blob = vpIte(hit, e.blob, s.blob)
		s.dlen = vpIte(hit, e.dlen, s.dlen)
	}
	for _, e := range v.unst {
		hit := e.idx == i
		s.term = vpIte(hit, e.term, s.term)
		s.typ = vpIte(hit, e.typ, s.typ)
		s.blob = vpIte(hit, e.blob, s.blob)
		s.dlen = vpIte(hit, e.dlen, s.dlen)
	}
	s.idx = i
	return s
}

// termAt: the term raftLog.term(i) would report for i in [first-1, last]
// (the base entry included), 0 otherwise.
func (v vpView) termAt(i uint64) uint64 {
	t := v.slotAt(i).term
	inRange := vpAnd(i+1 >= v.first, i <= v.last)
	if v.hasSnap {
		t = vpIte(i == v.snapIdx, v.snapTerm, t)
	} else {
		t = vpIte(i == v.base, v.baseT, t)
	}
	return vpIte(inRange, t, 0)
}

func vpSlotEq(a, b vpSlot) bool {
	return vpAnd(a.term == b.term, a.typ == b.typ, a.blob == b.blob, a.dlen == b.dlen)
}

// ---------------------------------------------------------------------------
// The representation invariant Inv (DESIGN 3.1). One function, used both as
// the assumption on the pre-state and as the assertion on the post-state.
// ---------------------------------------------------------------------------

func vpInvLog(k *vpConds, l *raftLog, term uint64) {
	ms := l.storage.(*MemoryStorage)
	u := &l.unstable
	k.add(len(ms.ents) >= 1)
	s, ts := ms.ents[0].GetIndex(), ms.ents[0].GetTerm()
	n := uint64(len(ms.ents) - 1)
	m := uint64(len(u.entries))
	k.bound(s <= vpMaxIdx+64)
	// storage contiguous, terms non-decreasing, >= 1, <= Term
	prev := ts
	for i, e := range ms.ents[1:] {
		k.add(e.GetIndex() == s+uint64(i)+1)
		k.add(e.GetTerm() >= prev)
		k.add(e.GetTerm() >= 1)
		prev = e.GetTerm()
	}
	k.add((s == 0) == (ts == 0))
	var prevU uint64
	if u.snapshot != nil {
		si, st := u.snapshot.GetMetadata().GetIndex(), u.snapshot.GetMetadata().GetTerm()
		k.add(u.offset == si+1)
		k.add(si >= 1)
		k.add(st >= 1)
		k.add(st <= term)
		k.add(l.committed >= si)
		k.add(l.applying < si)
		// compaction never passes the applied index, snapshot pending or not
		k.add(l.applied >= s)
		if ms.snapshot != nil {
			// the pending snapshot is newer than the one in storage (restore()
			// only accepts a snapshot above the commit index)
			k.add(ms.snapshot.GetMetadata().GetIndex() < si)
			k.add(ms.snapshot.GetMetadata().GetIndex() >= s)
		}
		prevU = st
	} else {
		k.add(!u.snapshotInProgress)
		k.add(u.offset >= s+1)
		k.add(u.offset <= s+n+1)
		if m == 0 {
			k.add(u.offset == s+n+1)
		}
		prevU = vpStorageTermAt(ms, u.offset-1)
		// storage terms below the offset are bounded by Term
		for _, e := range ms.ents {
			k.add(vpImplies(e.GetIndex() < u.offset, e.GetTerm() <= term))
		}
		k.add(l.applied+1 >= s+1)
		// what has been applied has been persisted first (Ready contract)
		k.add(l.applied < u.offset)
		// storage contract: snapshots are taken at applied, hence committed and
		// persisted, indexes (after a restart with Config.Applied unset the
		// applied cursor itself may be below the snapshot index)
		if ms.snapshot != nil {
			k.add(ms.snapshot.GetMetadata().GetIndex() <= l.committed)
			k.add(ms.snapshot.GetMetadata().GetIndex() < u.offset)
			k.add(ms.snapshot.GetMetadata().GetIndex() >= s)
		}
	}
	for i, e := range u.entries {
		k.add(e.GetIndex() == u.offset+uint64(i))
		k.add(e.GetTerm() >= prevU)
		k.add(e.GetTerm() >= 1)
		k.add(e.GetTerm() <= term)
		prevU = e.GetTerm()
	}
	k.add(u.offset <= u.offsetInProgress)
	k.add(u.offsetInProgress <= u.offset+m)
	// cursors
	last := l.lastIndex()
	k.add(l.applied <= l.applying)
	k.add(l.applying <= l.committed)
	k.add(l.committed <= last)
	k.add(uint64(l.maxApplyingEntsSize) >= 1)
	k.bound(vpOr(uint64(l.maxApplyingEntsSize) <= vpMaxSize, uint64(l.maxApplyingEntsSize) == noLimit))
	k.bound(uint64(l.applyingEntsSize) <= 2*vpMaxSize)
	k.add(vpImplies(!l.applyingEntsPaused, l.applyingEntsSize < l.maxApplyingEntsSize))
}

func vpInvTracker(k *vpConds, r *raft) {
	trk := &r.trk
	// progress keys = members; learner marks
	ids := map[uint64]bool{}
	for id := range trk.Voters[0] {
		ids[id] = true
	}
	for id := range trk.Voters[1] {
		ids[id] = true
	}
	for id := range trk.Learners {
		ids[id] = true
	}
	for id := range trk.LearnersNext {
		ids[id] = true
	}
	k.add(len(ids) == len(trk.Progress))
	for id := uint64(1); id <= 4; id++ {
		pr := trk.Progress[id]
		k.add(ids[id] == (pr != nil))
		if pr == nil {
			continue
		}
		_, isL := trk.Learners[id]
		k.add(pr.IsLearner == isL)
		k.add(pr.Inflights != nil)
	}
	for id := range trk.Learners {
		_, a := trk.Voters[0][id]
		_, b := trk.Voters[1][id]
		k.add(!a && !b)
	}
	for id := range trk.LearnersNext {
		_, b := trk.Voters[1][id]
		k.add(b)
	}
	if len(trk.Voters[1]) == 0 {
		k.add(trk.Voters[1] == nil)
		k.add(trk.LearnersNext == nil)
		k.add(!trk.AutoLeave)
	}
	pr := trk.Progress[r.id]
	k.add(r.isLearner == (pr != nil && pr.IsLearner))
}

func vpInvProgress(k *vpConds, r *raft) {
	last := r.raftLog.lastIndex()
	for id := uint64(1); id <= 4; id++ {
		pr := r.trk.Progress[id]
		if pr == nil {
			continue
		}
		k.add(pr.Match < pr.Next)
		k.add(pr.Match <= last)
		k.add(pr.Next <= last+1)
		k.add(uint64(pr.State) <= 2)
		k.add(vpImplies(pr.State != tracker.StateReplicate, pr.Inflights.Count() == 0))
		k.add(pr.Inflights.Count() <= r.trk.MaxInflight)
		k.add(vpImplies(pr.State != tracker.StateSnapshot, pr.PendingSnapshot == 0))
		if id == r.id {
			k.add(pr.State == tracker.StateReplicate)
			k.add(pr.RecentActive)
		}
	}
}

// vpInvTally: a (pre-)candidate's recorded votes are still undecided; a won
// tally makes it leader (or candidate), a lost one follower, in the same step.
func vpInvTally(k *vpConds, r *raft) {
	won, lost := true, false
	for h := 0; h < 2; h++ {
		half := r.trk.Voters[h]
		if len(half) == 0 {
			continue
		}
		var yes, missing uint64
		for id := uint64(1); id <= 4; id++ {
			if _, ok := half[id]; !ok {
				continue
			}
			v, voted := r.trk.Votes[id]
			if voted {
				yes += vpB2U(v)
			} else {
				missing++
			}
		}
		q := uint64(len(half)/2 + 1)
		won = vpAnd(won, yes >= q)
		lost = vpOr(lost, yes+missing < q)
	}
	// a candidate (not a pre-candidate) may hold a winning tally while it waits
	// for its own vote to become durable
	_, selfVoted := r.trk.Votes[r.id]
	_, selfVoter := r.trk.Voters.IDs()[r.id]
	waiting := r.state == StateCandidate && selfVoter && !selfVoted
	if !waiting {
		k.add(!won)
	}
	k.add(!lost)
}

func vpInv(r *raft) bool {
	k := &vpConds{}
	vpInvInto(k, r)
	return k.all()
}

func vpInvInto(k *vpConds, r *raft) {
	k.bound(r.Term <= vpMaxIdx+8)
	vpInvLog(k, r.raftLog, r.Term)
	vpInvTracker(k, r)
	// roles
	k.add(vpImplies(r.Vote != None, r.Term >= 1))
	k.add(r.electionTimeout >= 2)
	k.bound(r.electionTimeout <= 1000)
	k.add(r.heartbeatTimeout >= 1)
	k.add(r.heartbeatTimeout < r.electionTimeout)
	k.add(r.electionElapsed >= 0)
	k.add(r.heartbeatElapsed >= 0)
	k.bound(r.electionElapsed <= 1<<40)
	k.bound(r.heartbeatElapsed <= 1<<40)
	k.add(r.randomizedElectionTimeout >= r.electionTimeout)
	k.add(r.randomizedElectionTimeout < 2*r.electionTimeout)
	k.add(vpImplies(r.readOnly.option == ReadOnlyLeaseBased, r.checkQuorum))
	k.add(uint64(r.readOnly.option) <= 1)
	switch r.state {
	case StateFollower:
		k.add(r.lead != r.id)
		k.add(r.leadTransferee == None)
	case StateCandidate:
		k.add(r.Vote == r.id)
		k.add(r.lead == None)
		k.add(r.Term >= 1)
		k.add(r.leadTransferee == None)
		vpInvTally(k, r)
	case StatePreCandidate:
		k.add(r.lead == None)
		k.add(r.leadTransferee == None)
		vpInvTally(k, r)
	case StateLeader:
		k.add(r.lead == r.id)
		k.add(r.Term >= 1)
		k.add(r.Vote == r.id)
		k.add(r.leadTransferee != r.id)
		last := r.raftLog.lastIndex()
		k.add(vpViewOf(r.raftLog).termAt(last) == r.Term)
		vpInvProgress(k, r)
		k.bound(uint64(r.uncommittedSize) <= vpMaxSize)
	default:
		k.add(false)
	}
	k.add(uint64(r.maxUncommittedSize) >= 1)
}
