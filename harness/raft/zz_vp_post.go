//go:build verif

package raft

import (
	pb "go.etcd.io/raft/v3/raftpb"
	"go.etcd.io/raft/v3/tracker"
)

// Property-specific step obligations (DESIGN section 5). Each function is
// called from vpStepCell after the real Step has run.

// vpPre2 holds the parts of the pre-state only some obligations need.
type vpPre2 struct {
	elapsed, etimeout int
	active            [5]bool
	next              [5]uint64
	pstate            [5]tracker.StateType
	pending           [5]uint64
	paused            [5]bool
	infl              [5]int
	inflFull          [5]bool
	uncommitted       uint64
	pendingConf       uint64
	nReadStates       int
	nPendReads        int
	nUnconfirmed      int
	confirmed         uint64
	readReqs          []*readIndexRequest
	lastTerm          uint64
}

func vpRecord2(r *raft) vpPre2 {
	p := vpPre2{elapsed: r.electionElapsed, etimeout: r.electionTimeout, uncommitted: uint64(r.uncommittedSize), pendingConf: r.pendingConfIndex,
		nReadStates: len(r.readStates), nPendReads: len(r.pendingReadIndexMessages), nUnconfirmed: len(r.readOnly.unconfirmedReads), confirmed: r.readOnly.confirmedReads}
	p.readReqs = append(p.readReqs, r.readOnly.unconfirmedReads...)
	for id := uint64(1); id <= 4; id++ {
		if pr := r.trk.Progress[id]; pr != nil {
			p.active[id] = pr.RecentActive
			p.next[id] = pr.Next
			p.pstate[id] = pr.State
			p.pending[id] = pr.PendingSnapshot
			p.paused[id] = pr.MsgAppFlowPaused
			p.infl[id] = pr.Inflights.Count()
			p.inflFull[id] = pr.Inflights.Full()
		}
	}
	v := vpViewOf(r.raftLog)
	p.lastTerm = v.termAt(v.last)
	return p
}

func vpIsTransferCtx(m *pb.Message) bool { return len(m.GetContext()) == len(vpCampaignTransfer) }

func vpBytesEq(a, b []byte) bool {
	if len(a) != len(b) {
		return false
	}
	res := true
	for i := range a {
		res = vpAnd(res, a[i] == b[i])
	}
	return res
}

// ---- vote requests: C02-E2, C17-K1, C17-K3 ----

func vpPostVoteReq(r *raft, pre vpRec, p2 vpPre2, m *pb.Message) {
	isPre := m.GetType() == pb.MsgPreVote
	newAfter := r.msgsAfterAppend[pre.nafter:]
	vpAssert(len(r.msgs) == pre.nmsgs, "E2/vote-reply-never-immediate")
	vpAssert(len(newAfter) <= 1, "E2/at-most-one-reply")
	from := m.GetFrom()
	upToDate := vpOr(m.GetLogTerm() > p2.lastTerm, vpAnd(m.GetLogTerm() == p2.lastTerm, m.GetIndex() >= pre.view.last))
	for _, x := range newAfter {
		vpAssert(x.GetType() == voteRespMsgType(m.GetType()), "E2/reply-type-matches-request")
		vpAssert(x.GetTo() == from, "E2/reply-to-requester")
		granted := !x.GetReject()
		if granted {
			vpAssert(upToDate, "E2/grant-only-to-up-to-date-log")
			vpAssert(x.GetTerm() == m.GetTerm(), "E2/grant-carries-request-term")
			if !isPre {
				vpAssert(vpAnd(r.Term == m.GetTerm(), r.Vote == from), "E2/grant-records-vote-in-request-term")
				vpAssert(vpImplies(pre.term == m.GetTerm(), vpOr(pre.vote == None, pre.vote == from)), "E2/one-vote-per-term")
				vpAssert(vpOr(pre.lead == None, pre.term < m.GetTerm(), pre.vote == from), "E2/no-grant-while-following-a-leader")
				vpAssert(r.electionElapsed == 0, "E2/grant-resets-election-timer")
			} else {
				vpAssert(vpOr(m.GetTerm() > pre.term, pre.vote == from, vpAnd(pre.vote == None, pre.lead == None)), "K1/prevote-grant-rule")
			}
		} else {
			vpAssert(x.GetTerm() == r.Term, "E2/reject-carries-own-term")
		}
	}
	// the recorded vote changes only through a grant (or a term change)
	if !isPre {
		vpAssert(vpImplies(vpAnd(r.Vote != pre.vote, r.Term == pre.term), vpAnd(len(newAfter) == 1, r.Vote == from)), "E2/vote-changes-only-by-grant")
	}
	if isPre {
		// K1: a pre-vote request never changes term, vote, leader, role or log
		post := vpViewOf(r.raftLog)
		vpAssert(vpAnd(r.Term == pre.term, r.Vote == pre.vote, r.lead == pre.lead, r.state == pre.state), "K1/prevote-side-effect-free")
		vpAssert(vpAnd(post.last == pre.view.last, post.committed == pre.view.committed, post.first == pre.view.first), "K1/prevote-leaves-log")
	}
	// K3: leader lease
	inLease := vpAnd(r.checkQuorum, pre.lead != None, p2.elapsed < p2.etimeout)
	if !vpIsTransferCtx(m) {
		higher := vpAnd(inLease, m.GetTerm() > pre.term)
		vpAssert(vpImplies(higher, vpAnd(r.Term == pre.term, r.Vote == pre.vote, r.lead == pre.lead, r.state == pre.state, r.electionElapsed == p2.elapsed, len(newAfter) == 0)), "K3/in-lease-higher-term-ignored")
		same := vpAnd(inLease, m.GetTerm() == pre.term)
		vpAssert(vpImplies(same, vpAnd(r.Term == pre.term, r.Vote == pre.vote)), "K3/in-lease-same-term-keeps-vote")
		for _, x := range newAfter {
			vpAssert(vpImplies(vpAnd(same, !x.GetReject()), pre.vote == from), "K3/in-lease-grant-only-repeats-vote")
		}
	} else {
		vpReachable("K3/transfer-bypasses-lease")
	}
}

// ---- vote bookkeeping on every cell: C02-E4, E5; C17-K2 ----

func vpPostVotesGeneric(r *raft, pre vpRec, m *pb.Message) {
	from := m.GetFrom()
	for id := uint64(1); id <= 4; id++ {
		pv, had := pre.votes[id]
		nv, has := r.trk.Votes[id]
		if has && !had {
			ok := vpAnd(from == id, nv == !m.GetReject(), r.state == pre.state, r.Term == pre.term, m.GetTerm() >= pre.term)
			switch pre.state {
			case StateCandidate:
				ok = vpAnd(ok, m.GetType() == pb.MsgVoteResp, m.GetTerm() == pre.term)
			case StatePreCandidate:
				ok = vpAnd(ok, m.GetType() == pb.MsgPreVoteResp)
			default:
				ok = false
			}
			vpAssert(ok, "E4/vote-recorded-only-from-matching-response")
		}
		if has && had {
			vpAssert(nv == pv, "E4/first-answer-wins")
		}
	}
	// E5: a fresh campaign starts with an empty tally; the self vote travels
	// through the after-append queue
	campaigned := false
	if r.state == StateCandidate || r.state == StatePreCandidate {
		campaigned = pre.state != r.state
		for _, x := range r.msgs[pre.nmsgs:] {
			if x.GetType() == pb.MsgVote || x.GetType() == pb.MsgPreVote {
				campaigned = true
			}
		}
		for _, x := range r.msgsAfterAppend[pre.nafter:] {
			if (x.GetType() == pb.MsgVoteResp || x.GetType() == pb.MsgPreVoteResp) && m.GetType() != pb.MsgVote && m.GetType() != pb.MsgPreVote {
				campaigned = true
			}
		}
	}
	if campaigned {
		vpAssert(len(r.trk.Votes) == 0, "E5/campaign-starts-with-empty-tally")
		_, selfVoter := r.trk.Voters.IDs()[r.id]
		n := 0
		for _, x := range r.msgsAfterAppend[pre.nafter:] {
			if x.GetTo() == r.id && (x.GetType() == pb.MsgVoteResp || x.GetType() == pb.MsgPreVoteResp) {
				n++
				want := r.Term
				if r.state == StatePreCandidate {
					want = r.Term + 1
				}
				vpAssert(vpAnd(!x.GetReject(), x.GetTerm() == want, (x.GetType() == pb.MsgPreVoteResp) == (r.state == StatePreCandidate)), "E5/self-vote-queued-after-append")
			}
		}
		if selfVoter {
			vpAssert(n == 1, "E5/exactly-one-self-vote")
		} else {
			vpAssert(n == 0, "E5/no-self-vote-for-non-voter")
		}
	}
	// K2: with PreVote, the term rises for a campaign only after a pre-vote
	// quorum or on a leader-initiated transfer
	if r.state == StateCandidate {
		rose := vpOr(pre.state != StateCandidate, r.Term > pre.term)
		legit := vpOr(vpAnd(m.GetType() == pb.MsgPreVoteResp, !m.GetReject(), pre.state == StatePreCandidate), m.GetType() == pb.MsgTimeoutNow)
		vpAssert(vpImplies(vpAnd(r.preVote, rose), legit), "K2/term-raise-needs-prevote-quorum-or-transfer")
		if pre.state == StatePreCandidate && m.GetType() == pb.MsgPreVoteResp {
			// the deciding tally: recorded pre-votes plus this response
			vpAssert(vpJointMaj(&r.trk, func(id uint64) bool {
				v, ok := pre.votes[id]
				return vpOr(vpAnd(ok, v), vpAnd(!ok, id == from, !m.GetReject()))
			}), "K2/prevote-quorum")
			vpAssert(r.Term == pre.term+1, "K2/campaign-term-is-next")
		}
	}
	if r.state == StatePreCandidate && pre.state != StatePreCandidate {
		vpAssert(vpAnd(r.Term == pre.term, r.Vote == pre.vote), "K2/precandidate-keeps-term-and-vote")
	}
	// a granted pre-vote carries the *future* term of the campaign it allows; it
	// never raises the receiver's term by itself (only winning the pre-vote does)
	if m.GetType() == pb.MsgPreVoteResp && !m.GetReject() {
		won := vpAnd(pre.state == StatePreCandidate, r.state != StatePreCandidate, r.state != StateFollower, r.Term == pre.term+1)
		vpAssert(vpOr(r.Term == pre.term, won), "K2/granted-pre-vote-alone-never-raises-the-term")
	}
}

// ---- heartbeats: C06-Q4, C11-R4 ----

func vpPostHeartbeat(r *raft, pre vpRec, m *pb.Message) {
	if r.state == StateLeader && pre.state == StateLeader && r.Term == pre.term {
		return // ignored (or only answered) by a leader of the same or higher term
	}
	cur := m.GetTerm() >= pre.term
	if !cur {
		return
	}
	want := vpIte(m.GetCommit() > pre.committed, m.GetCommit(), pre.committed)
	vpAssert(r.raftLog.committed == want, "Q4/heartbeat-commit-is-max")
	n := 0
	for _, x := range r.msgs[pre.nmsgs:] {
		if x.GetType() == pb.MsgHeartbeatResp {
			n++
			vpAssert(x.GetTo() == m.GetFrom(), "R4/heartbeat-reply-to-sender")
			vpAssert(vpBytesEq(x.GetContext(), m.GetContext()), "R4/heartbeat-context-echoed")
		}
	}
	vpAssert(n == 1, "R4/one-heartbeat-reply")
	vpAssert(vpAnd(r.lead == m.GetFrom(), r.state == StateFollower, r.electionElapsed == 0), "Q4/heartbeat-follows-sender")
}

// ---- follower append: C03-M1, M5; C06-Q3, Q5; C15-W7 ----

// vpHanded remembers the unstable entries a Ready would hand out (or has handed
// out) before the step: the application and the append thread still read them.
type vpHanded struct {
	ents  []*pb.Entry
	slots []vpSlot
}

func vpHandOut(r *raft) vpHanded {
	h := vpHanded{ents: r.raftLog.unstable.entries}
	for _, e := range h.ents {
		s := vpSlotOf(e)
		h.slots = append(h.slots, s)
	}
	return h
}

// check: the slice handed out earlier still shows exactly the entries it had
func (h vpHanded) check(label string) {
	for i, e := range h.ents {
		s := vpSlotOf(e)
		vpAssert(vpAnd(s.idx == h.slots[i].idx, vpSlotEq(s, h.slots[i])), label)
	}
}

func vpPostAppend(r *raft, pre vpRec, p2 vpPre2, m *pb.Message) {
	post := vpViewOf(r.raftLog)
	newAfter := r.msgsAfterAppend[pre.nafter:]
	if pre.state == StateLeader && m.GetTerm() == pre.term {
		return // a leader never receives MsgApp at its own term (election safety); the code ignores it
	}
	if m.GetTerm() < pre.term {
		// W7: a stale leader is answered so that it learns the newer term
		wake := vpOr(r.checkQuorum, r.preVote)
		vpAssert(vpImplies(wake, len(newAfter) == 1), "W7/stale-append-answered")
		vpAssert(vpImplies(!wake, len(newAfter) == 0), "W7/stale-append-otherwise-dropped")
		for _, x := range newAfter {
			vpAssert(vpAnd(x.GetType() == pb.MsgAppResp, x.GetTo() == m.GetFrom(), x.GetTerm() == r.Term, x.GetIndex() == 0, !x.GetReject()), "W7/wake-up-reply-shape")
		}
		vpAssert(vpAnd(post.last == pre.view.last, post.committed == pre.committed, r.Term == pre.term), "W7/stale-append-changes-nothing")
		return
	}
	vpAssert(len(newAfter) == 1, "Q3/one-append-reply")
	if len(newAfter) != 1 {
		return
	}
	x := newAfter[0]
	vpAssert(vpAnd(x.GetType() == pb.MsgAppResp, x.GetTo() == m.GetFrom()), "Q3/append-reply-to-sender")
	vpAssert(vpAnd(r.state == StateFollower, r.lead == m.GetFrom(), r.Term == m.GetTerm()), "M1/append-follows-sender")
	prevI, prevT := m.GetIndex(), m.GetLogTerm()
	kk := uint64(len(m.GetEntries()))
	v := pre.view
	stale := prevI < pre.committed
	matched := vpAnd(!stale, prevI+1 >= v.first, prevI <= v.last, v.termAt(prevI) == prevT)
	j := vpU64()
	unchanged := vpAnd(post.last == v.last, post.first == v.first, vpImplies(v.has(j), vpSlotEq(post.slotAt(j), v.slotAt(j))))
	// stale prev: acknowledged at the commit index, nothing changes
	vpAssert(vpImplies(stale, vpAnd(!x.GetReject(), x.GetIndex() == pre.committed, unchanged, post.committed == pre.committed)), "Q3/stale-prev-acks-commit-index")
	// mismatch: rejection with a hint, nothing changes
	rejected := vpAnd(!stale, !matched)
	vpAssert(vpImplies(rejected, vpAnd(x.GetReject(), x.GetIndex() == prevI, unchanged, post.committed == pre.committed)), "M1/mismatch-rejects-and-keeps-log")
	hint := x.GetRejectHint()
	vpAssert(vpImplies(rejected, vpAnd(hint <= prevI, hint <= v.last, vpOr(x.GetLogTerm() == 0, vpAnd(x.GetLogTerm() == v.termAt(hint), x.GetLogTerm() <= prevT)))), "M5/reject-hint")
	// match: acknowledged at prev+len, the slice is in the log
	vpAssert(vpImplies(matched, vpAnd(!x.GetReject(), x.GetIndex() == prevI+kk)), "Q3/ack-index-is-end-of-slice")
	vpAssert((x.GetReject()) == rejected, "Q3/reject-iff-mismatch")
	var ci uint64
	ents := m.GetEntries()
	for i := len(ents) - 1; i >= 0; i-- {
		e := ents[i]
		c := vpOr(!v.has(e.GetIndex()), v.termAt(e.GetIndex()) != e.GetTerm())
		ci = vpIte(c, e.GetIndex(), ci)
	}
	for _, e := range ents {
		vpAssert(vpImplies(matched, vpAnd(post.has(e.GetIndex()), post.termAt(e.GetIndex()) == e.GetTerm())), "M1/slice-present")
		vpAssert(vpImplies(vpAnd(matched, ci != 0, e.GetIndex() >= ci), vpSlotEq(post.slotAt(e.GetIndex()), vpSlotOf(e))), "M1/appended-entries-are-the-message-entries")
	}
	vpAssert(vpImplies(vpAnd(matched, v.has(j), vpOr(ci == 0, j < ci)), vpAnd(post.has(j), vpSlotEq(post.slotAt(j), v.slotAt(j)))), "M1/entries-before-first-conflict-kept")
	vpAssert(vpImplies(vpAnd(matched, ci == 0), post.last == v.last), "M1/no-conflict-keeps-longer-tail")
	vpAssert(vpImplies(vpAnd(matched, ci != 0), post.last == prevI+kk), "M1/conflict-truncates-to-slice")
	// Q5
	lastNew := prevI + kk
	want := vpIte(m.GetCommit() < lastNew, m.GetCommit(), lastNew)
	vpAssert(vpImplies(matched, post.committed == vpIte(want > pre.committed, want, pre.committed)), "Q5/follower-commit")
}

// ---- snapshot install: C09-S1 ----

func vpPostSnap(r *raft, pre vpRec, p2 vpPre2, m *pb.Message, preCfg *pb.ConfState) {
	post := vpViewOf(r.raftLog)
	newAfter := r.msgsAfterAppend[pre.nafter:]
	if m.GetTerm() < pre.term {
		vpAssert(vpAnd(len(newAfter) == 0, post.last == pre.view.last, post.committed == pre.committed), "S1/stale-snapshot-ignored")
		return
	}
	if pre.state == StateLeader && m.GetTerm() == pre.term {
		return
	}
	s := m.GetSnapshot()
	si, st := s.GetMetadata().GetIndex(), s.GetMetadata().GetTerm()
	cs := s.GetMetadata().GetConfState()
	v := pre.view
	inCfg := vpContains(cs.Voters, r.id) || vpContains(cs.Learners, r.id) || vpContains(cs.VotersOutgoing, r.id)
	obsolete := si <= pre.committed
	fastFwd := vpAnd(!obsolete, inCfg, si+1 >= v.first, si <= v.last, v.termAt(si) == st)
	install := vpAnd(!obsolete, inCfg, !fastFwd)
	j := vpU64()
	logSame := vpAnd(post.last == v.last, post.first == v.first, post.hasSnap == v.hasSnap, vpImplies(v.has(j), vpSlotEq(post.slotAt(j), v.slotAt(j))))
	cfgSame := preCfg.Equivalent(r.trk.ConfState()) == nil
	vpAssert(vpImplies(obsolete, vpAnd(logSame, post.committed == pre.committed, cfgSame)), "S1/obsolete-snapshot-changes-nothing")
	if !inCfg {
		vpAssert(vpAnd(logSame, post.committed == pre.committed, cfgSame), "S1/snapshot-without-self-ignored")
	}
	vpAssert(vpImplies(fastFwd, vpAnd(logSame, post.committed == si, cfgSame)), "S1/matching-snapshot-only-fast-forwards-commit")
	vpAssert(vpImplies(install, vpAnd(post.committed == si, post.first == si+1, post.last == si, post.hasSnap, post.snapIdx == si, post.snapTerm == st, len(r.raftLog.unstable.entries) == 0, !r.raftLog.unstable.snapshotInProgress)), "S1/install-resets-log-to-snapshot")
	vpAssert(vpImplies(install, si > pre.committed), "S1/install-only-above-commit")
	if inCfg {
		// under install the configuration is exactly the snapshot's
		eq := cs.Equivalent(r.trk.ConfState()) == nil
		vpAssert(vpImplies(install, eq), "S1/install-adopts-snapshot-config")
	}
	vpAssert(post.committed >= pre.committed, "S1/commit-never-decreases")
	vpAssert(vpAnd(post.applied == v.applied, post.applying == v.applying), "S1/applied-untouched-until-persisted")
	vpAssert(len(newAfter) == 1, "S1/one-reply")
	for _, x := range newAfter {
		vpAssert(vpAnd(x.GetType() == pb.MsgAppResp, x.GetTo() == m.GetFrom(), !x.GetReject()), "S1/reply-shape")
		vpAssert(vpImplies(install, x.GetIndex() == si), "S1/reply-index-installed")
		vpAssert(vpImplies(!install, x.GetIndex() == post.committed), "S1/reply-index-not-installed")
	}
}

// ---- proposals: C20-P1..P3, C16-L5 ----

func vpPostProp(r *raft, pre vpRec, p2 vpPre2, m *pb.Message, err error, orig []*pb.Entry) {
	post := vpViewOf(r.raftLog)
	v := pre.view
	j := vpU64()
	logSame := vpAnd(post.last == v.last, post.first == v.first, vpImplies(v.has(j), vpSlotEq(post.slotAt(j), v.slotAt(j))))
	switch pre.state {
	case StateCandidate, StatePreCandidate:
		vpAssert(err == ErrProposalDropped, "P3/candidate-drops")
		vpAssert(vpAnd(logSame, len(r.msgs) == pre.nmsgs, len(r.msgsAfterAppend) == pre.nafter), "P3/dropped-means-nothing-happens")
	case StateFollower:
		fwd := vpAnd(pre.lead != None, !r.disableProposalForwarding)
		vpAssert((err == nil) == fwd, "P3/follower-forwards-iff-leader-known")
		vpAssert(vpOr(err == nil, err == ErrProposalDropped), "P3/only-dropped-error")
		vpAssert(logSame, "P3/follower-never-appends")
		if err == nil {
			vpAssert(len(r.msgs) == pre.nmsgs+1 && len(r.msgsAfterAppend) == pre.nafter, "P3/exactly-one-forward")
			if len(r.msgs) == pre.nmsgs+1 {
				x := r.msgs[pre.nmsgs]
				vpAssert(vpAnd(x.GetType() == pb.MsgProp, x.GetTo() == pre.lead, x.GetTerm() == 0, x.GetFrom() == m.GetFrom()), "P3/forward-shape")
				vpAssert(len(x.GetEntries()) == len(orig), "P3/forward-same-entries")
				for i := range orig {
					if i < len(x.GetEntries()) {
						vpAssert(x.GetEntries()[i] == orig[i], "P3/forward-same-entries")
					}
				}
			}
		} else {
			vpAssert(len(r.msgs) == pre.nmsgs && len(r.msgsAfterAppend) == pre.nafter, "P3/dropped-means-nothing-happens")
		}
	case StateLeader:
		var s uint64
		for _, e := range orig {
			s += uint64(len(e.GetData()))
		}
		hasSelf := r.trk.Progress[r.id] != nil
		if pre.state == StateLeader && r.state != StateLeader {
			return
		}
		accept := vpAnd(hasSelf, pre.transferee == None, vpOr(p2.uncommitted == 0, s == 0, p2.uncommitted+s <= uint64(r.maxUncommittedSize)))
		vpAssert((err == nil) == accept, "L5/accept-iff-within-quota")
		vpAssert(vpOr(err == nil, err == ErrProposalDropped), "P2/only-dropped-error")
		if err != nil {
			vpAssert(vpAnd(logSame, uint64(r.uncommittedSize) == p2.uncommitted, len(r.msgs) == pre.nmsgs, len(r.msgsAfterAppend) == pre.nafter), "P2/dropped-means-nothing-happens")
			return
		}
		k := uint64(len(orig))
		vpAssert(uint64(r.uncommittedSize) == p2.uncommitted+s, "L5/quota-accounting")
		vpAssert(vpOr(uint64(r.uncommittedSize) <= uint64(r.maxUncommittedSize), p2.uncommitted == 0, s == 0), "L5/limit-plus-one-proposal")
		vpAssert(post.last == v.last+k, "P1/appends-exactly-the-proposed-entries")
		for i, e := range orig {
			idx := v.last + uint64(i) + 1
			ps := post.slotAt(idx)
			vpAssert(vpAnd(post.has(idx), ps.term == r.Term, ps.blob == vpBlobID(e.GetData()), ps.dlen == uint64(len(e.GetData())), ps.typ == uint64(e.GetType())), "P1/entry-payload-type-order-preserved")
		}
		vpAssert(vpImplies(v.has(j), vpSlotEq(post.slotAt(j), v.slotAt(j))), "P1/existing-log-untouched")
		// stored entries are copies
		for i, e := range orig {
			if i < len(r.raftLog.unstable.entries) {
				for _, u := range r.raftLog.unstable.entries {
					vpAssert(u != e, "P1/stored-entries-are-copies")
				}
			}
		}
		n := 0
		for _, x := range r.msgsAfterAppend[pre.nafter:] {
			if x.GetTo() == r.id {
				n++
				vpAssert(vpAnd(x.GetType() == pb.MsgAppResp, x.GetIndex() == post.last, !x.GetReject()), "P1/self-ack-after-append")
			}
		}
		vpAssert(n == 1, "P1/one-self-ack")
	}
}

// ---- leader sends: C03-M2, C16-L2, L4, C09-S3, C06-Q4 ----

func vpPostLeaderSends(r *raft, pre vpRec, p2 vpPre2, m *pb.Message) {
	if r.state != StateLeader || pre.state != StateLeader {
		return
	}
	post := vpViewOf(r.raftLog)
	var nApp, nAppEnts [5]uint64
	for _, x := range r.msgs[pre.nmsgs:] {
		to := x.GetTo()
		switch x.GetType() {
		case pb.MsgApp:
			prev := x.GetIndex()
			vpAssert(vpAnd(prev+1 >= post.first, prev <= post.last, x.GetLogTerm() == post.termAt(prev)), "M2/prev-is-a-log-position")
			for i, e := range x.GetEntries() {
				idx := prev + uint64(i) + 1
				vpAssert(vpAnd(e.GetIndex() == idx, post.has(idx), vpSlotEq(vpSlotOf(e), post.slotAt(idx))), "M2/entries-are-consecutive-log-entries")
			}
			vpAssert(x.GetCommit() == post.committed, "M2/carries-commit-index")
			vpAssert(vpOr(len(x.GetEntries()) <= 1, uint64(entsSize(x.GetEntries())) <= uint64(r.maxMsgSize)), "L2/append-size-limit")
			for id := uint64(2); id <= 4; id++ {
				nApp[id] += vpB2U(to == id)
				if len(x.GetEntries()) > 0 {
					nAppEnts[id] += vpB2U(to == id)
				}
			}
		case pb.MsgSnap:
			s := x.GetSnapshot()
			si := s.GetMetadata().GetIndex()
			vpAssert(vpAnd(si >= 1, si <= post.committed), "S3/snapshot-within-committed-log")
			vpAssert(vpImplies(vpAnd(si+1 >= post.first, si <= post.last), s.GetMetadata().GetTerm() == post.termAt(si)), "S3/snapshot-term-matches-log")
			for id := uint64(2); id <= 4; id++ {
				if pr := r.trk.Progress[id]; pr != nil {
					vpAssert(vpImplies(to == id, vpAnd(pr.State == tracker.StateSnapshot, pr.PendingSnapshot == si, pr.Next == si+1)), "S3/progress-tracks-pending-snapshot")
				}
			}
		case pb.MsgHeartbeat:
			for id := uint64(2); id <= 4; id++ {
				if pr := r.trk.Progress[id]; pr != nil && pre.hasPr[id] {
					vpAssert(vpImplies(to == id, x.GetCommit() == vpIte(pr.Match < post.committed, pr.Match, post.committed)), "Q4/heartbeat-commit-clamped-to-match")
				}
			}
		}
	}
	// L4 flow control per peer
	for id := uint64(2); id <= 4; id++ {
		pr := r.trk.Progress[id]
		if pr == nil || !pre.hasPr[id] {
			continue
		}
		vpAssert(pr.Inflights.Count() <= r.trk.MaxInflight, "L4/window-bounded")
		stayedSnap := vpAnd(p2.pstate[id] == tracker.StateSnapshot, pr.State == tracker.StateSnapshot)
		vpAssert(vpImplies(stayedSnap, nApp[id] == 0), "L4/no-append-while-snapshot-pending")
		stayedRepl := vpAnd(p2.pstate[id] == tracker.StateReplicate, pr.State == tracker.StateReplicate)
		// a full window is only drained by an acknowledgement from that peer;
		// any other step sends it nothing but empty appends
		ackFromPeer := vpAnd(m.GetType() == pb.MsgAppResp, m.GetFrom() == id)
		vpAssert(vpImplies(vpAnd(p2.inflFull[id], stayedRepl, !ackFromPeer), nAppEnts[id] == 0), "L4/full-window-sends-only-empty-appends")
	}
}

// ---- check quorum: C17-K4 ----

func vpPostCheckQuorum(r *raft, pre vpRec, p2 vpPre2) {
	if pre.state != StateLeader {
		return
	}
	active := vpJointMaj(&r.trk, func(id uint64) bool {
		if id == r.id {
			return true
		}
		return p2.active[id]
	})
	vpAssert((r.state == StateLeader) == active, "K4/leader-survives-iff-quorum-active")
	vpAssert(vpImplies(!active, vpAnd(r.state == StateFollower, r.Term == pre.term, r.lead == None)), "K4/steps-down-in-same-term")
	for id := uint64(2); id <= 4; id++ {
		if pr := r.trk.Progress[id]; pr != nil {
			vpAssert(!pr.RecentActive, "K4/activity-reset-after-check")
		}
	}
}

// RecentActive turns true only by hearing from that peer.
func vpPostActivity(r *raft, pre vpRec, p2 vpPre2, m *pb.Message) {
	if pre.state != StateLeader || r.state != StateLeader {
		return
	}
	for id := uint64(2); id <= 4; id++ {
		pr := r.trk.Progress[id]
		if pr == nil || !pre.hasPr[id] {
			continue
		}
		became := vpAnd(pr.RecentActive, !p2.active[id])
		vpAssert(vpImplies(became, vpAnd(m.GetFrom() == id, vpOr(m.GetType() == pb.MsgAppResp, m.GetType() == pb.MsgHeartbeatResp))), "K4/activity-only-from-responses")
	}
}
