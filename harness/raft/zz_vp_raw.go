//go:build verif

package raft

import (
	pb "go.etcd.io/raft/v3/raftpb"
)

// ---------------------------------------------------------------------------
// F-raw: RawNode.Ready / Advance / restart
// ---------------------------------------------------------------------------

type vpRawOpts struct {
	o        vpOpts
	async    bool
	maxMsgs  int // pending messages in r.msgs
	maxAfter int // pending messages in r.msgsAfterAppend
}

// vpBuildRawNode builds a RawNode in the state between Advance and the next
// Ready: arbitrary node state, arbitrary previous Hard/SoftState, pending
// outgoing messages in both queues.
func vpBuildRawNode(ro vpRawOpts) (*RawNode, *vpNode) {
	nd := vpBuildNoAssume(ro.o)
	r := nd.r
	k := nd.conds
	l := r.raftLog
	u := &l.unstable
	rn := &RawNode{raft: r, asyncStorageWrites: ro.async}
	pt, pv, pc := vpU64(), vpU64(), vpU64()
	rn.prevHardSt = &pb.HardState{Term: new(pt), Vote: new(pv), Commit: new(pc)}
	k.add(pt <= r.Term)
	k.add(pc <= l.committed)
	k.add(vpImplies(pt == r.Term, vpOr(pv == r.Vote, pv == None)))
	sl, ss := vpU64(), vpU64()
	k.add(ss <= 3)
	rn.prevSoftSt = &SoftState{Lead: sl, RaftState: StateType(ss)}
	// pending ordinary messages
	n := vpChoose(ro.maxMsgs + 1)
	for i := 0; i < n; i++ {
		to := vpU64()
		k.add(vpAnd(to != r.id, to != None))
		typ := []pb.MessageType{pb.MsgApp, pb.MsgHeartbeat, pb.MsgVote}[i%3]
		r.msgs = append(r.msgs, &pb.Message{Type: typ.Enum(), To: new(to), From: new(r.id), Term: new(r.Term), Index: new(vpU64()), LogTerm: new(vpU64()), Commit: new(vpU64())})
	}
	// pending promises; self-addressed ones are what the node queues for itself
	na := vpChoose(ro.maxAfter + 1)
	for i := 0; i < na; i++ {
		self := vpChoose(2) == 1
		var m *pb.Message
		if self {
			if r.state == StateLeader {
				idx := vpU64()
				k.add(idx <= l.lastIndex())
				m = &pb.Message{Type: pb.MsgAppResp.Enum(), To: new(r.id), From: new(r.id), Term: new(r.Term), Index: new(idx)}
			} else if r.state == StateCandidate {
				m = &pb.Message{Type: pb.MsgVoteResp.Enum(), To: new(r.id), From: new(r.id), Term: new(r.Term)}
			} else if r.state == StatePreCandidate {
				m = &pb.Message{Type: pb.MsgPreVoteResp.Enum(), To: new(r.id), From: new(r.id), Term: new(r.Term + 1)}
			} else {
				continue
			}
		} else {
			to := vpU64()
			k.add(vpAnd(to != r.id, to != None))
			typ := []pb.MessageType{pb.MsgAppResp, pb.MsgVoteResp}[i%2]
			m = &pb.Message{Type: typ.Enum(), To: new(to), From: new(r.id), Term: new(r.Term), Index: new(vpU64()), Reject: new(vpBool())}
		}
		r.msgsAfterAppend = append(r.msgsAfterAppend, m)
	}
	if vpChoose(2) == 1 {
		r.readStates = append(r.readStates, ReadState{Index: vpU64(), RequestCtx: vpBytes(vpMaxSize)})
	}
	// Ready contract, synchronous mode: everything handed out by earlier Ready
	// calls has been persisted before this one (Advance was called), so the
	// storage entries shadowed by in-progress unstable entries equal them.
	ms := nd.ms
	for _, e := range ms.ents[1:] {
		for _, ue := range u.entries {
			same := vpAnd(e.GetIndex() == ue.GetIndex(), e.GetIndex() < u.offsetInProgress)
			k.add(vpImplies(same, vpAnd(e.GetTerm() == ue.GetTerm(), uint64(e.GetType()) == uint64(ue.GetType()), vpBlobID(e.GetData()) == vpBlobID(ue.GetData()), len(e.GetData()) == len(ue.GetData()))))
		}
		// shadowed storage entries at or above offsetInProgress are stale
		// leftovers; they lie above the commit index
		k.add(vpImplies(vpAnd(e.GetIndex() >= u.offset, e.GetIndex() >= u.offsetInProgress), e.GetIndex() > l.committed))
	}
	if ro.async {
		// asynchronous mode never hands out unstable entries for application
		k.add(l.applying < u.offset)
	} else {
		// synchronous mode: Advance has acknowledged the snapshot handed out by
		// the previous Ready, so none is "in progress" when the next Ready is taken
		k.add(!u.snapshotInProgress)
		// ... and everything handed out earlier has been persisted: the
		// in-progress part of the unstable log is in storage
		k.add(u.offsetInProgress <= ms.ents[0].GetIndex()+uint64(len(ms.ents)))
	}
	k.assume()
	return rn, nd
}

// vpLogEntriesIn lists the logical log entries with index in [lo, hi], in order.
func vpLogEntriesIn(l *raftLog, lo, hi uint64) []*pb.Entry {
	ms := l.storage.(*MemoryStorage)
	var out []*pb.Entry
	for _, e := range ms.ents[1:] {
		if e.GetIndex() < l.unstable.offset && e.GetIndex() >= lo && e.GetIndex() <= hi {
			out = append(out, e)
		}
	}
	for _, e := range l.unstable.entries {
		if e.GetIndex() >= lo && e.GetIndex() <= hi {
			out = append(out, e)
		}
	}
	return out
}

func vpReadyCell(ro vpRawOpts) {
	rn, nd := vpBuildRawNode(ro)
	r := rn.raft
	l := r.raftLog
	u := &l.unstable
	pre := vpRecord(r)
	preMsgs := append([]*pb.Message(nil), r.msgs...)
	preAfter := append([]*pb.Message(nil), r.msgsAfterAppend...)
	preUnst := append([]*pb.Entry(nil), u.entries...)
	preOff, preInProg := u.offset, u.offsetInProgress
	prevT, prevV, prevC := rn.prevHardSt.GetTerm(), rn.prevHardSt.GetVote(), rn.prevHardSt.GetCommit()
	preSnap := u.snapshot
	preSnapInProg := u.snapshotInProgress
	preApplying, preApplSize, prePaused := l.applying, l.applyingEntsSize, l.applyingEntsPaused
	nReads := len(r.readStates)
	// the committed entries the call may hand out
	var want []*pb.Entry
	if preSnap == nil && !prePaused {
		hi := l.committed
		if ro.async {
			hi = vpMin(hi, u.offset-1)
		}
		want = vpLogEntriesIn(l, preApplying+1, hi)
	}
	budget := uint64(l.maxApplyingEntsSize - l.applyingEntsSize)

	has := rn.HasReady()
	rd := rn.Ready()
	// C15-W5: HasReady announces everything a Ready would hand out (otherwise the
	// application never collects it), and announces nothing when there is nothing
	something := rd.SoftState != nil || rd.HardState != nil || len(rd.Entries) > 0 || rd.Snapshot != nil || len(rd.CommittedEntries) > 0 || len(rd.Messages) > 0 || len(rd.ReadStates) > 0
	vpAssert(vpImplies(something, has), "W5/has-ready-announces-everything-ready-hands-out")
	vpAssert(vpImplies(has, something || len(rn.stepsOnAdvance) > 0), "W5/has-ready-only-when-there-is-something")

	vpObserve("ready", uint64(len(rd.Entries)), uint64(len(rd.CommittedEntries)), uint64(len(rd.Messages)), vpB2U(rd.HardState != nil), vpB2U(rd.Snapshot != nil), vpB2U(rd.MustSync))
	// the representation invariant holds right after Ready (before the
	// application touches storage)
	ki := &vpConds{post: true}
	vpInvInto(ki, r)
	ki.assertEach("Inv/post")
	// ---- unstable entries (C05-D2, C15-W5) ----
	nNew := preOff + uint64(len(preUnst)) - preInProg
	vpAssert(uint64(len(rd.Entries)) == nNew, "D2/ready-entries-are-all-not-yet-handed-out")
	for i := range rd.Entries {
		j := len(preUnst) - len(rd.Entries) + i
		if j >= 0 && j < len(preUnst) {
			vpAssert(rd.Entries[i] == preUnst[j], "D2/ready-entries-are-the-unstable-entries")
		}
	}
	vpAssert(u.offsetInProgress == u.offset+uint64(len(u.entries)), "D2/accept-marks-everything-in-progress")
	// ---- HardState (C07-H3) ----
	changed := vpOr(r.Term != prevT, r.Vote != prevV, l.committed != prevC)
	vpAssert((rd.HardState != nil) == changed, "H3/hardstate-iff-changed")
	if rd.HardState != nil {
		vpAssert(vpAnd(rd.HardState.GetTerm() == r.Term, rd.HardState.GetVote() == r.Vote, rd.HardState.GetCommit() == l.committed), "H3/hardstate-is-current")
	}
	vpAssert(vpAnd(rn.prevHardSt.GetTerm() == r.Term, rn.prevHardSt.GetVote() == r.Vote, rn.prevHardSt.GetCommit() == l.committed), "H3/prev-hardstate-updated")
	vpAssert(rd.MustSync == vpOr(len(rd.Entries) != 0, r.Term != prevT, r.Vote != prevV), "D2/mustsync-iff-entries-or-term-vote")
	// ---- snapshot (C09-S2) ----
	vpAssert((rd.Snapshot != nil) == (preSnap != nil && !preSnapInProg), "S2/snapshot-exposed-once")
	if rd.Snapshot != nil {
		vpAssert(vpAnd(rd.Snapshot.GetMetadata().GetIndex() == preSnap.GetMetadata().GetIndex(), rd.Snapshot.GetMetadata().GetTerm() == preSnap.GetMetadata().GetTerm(), vpBlobID(rd.Snapshot.GetData()) == vpBlobID(preSnap.GetData())), "S2/snapshot-is-the-pending-one")
	}
	vpAssert((preSnap != nil) == u.snapshotInProgress, "S2/snapshot-in-progress-after-accept")
	// ---- committed entries (C08-A1, A3) ----
	if preSnap != nil {
		vpAssert(len(rd.CommittedEntries) == 0, "A3/no-apply-while-snapshot-pending")
	}
	if prePaused {
		vpAssert(len(rd.CommittedEntries) == 0, "A1/no-apply-while-paused")
	}
	vpLimitSpec(want, rd.CommittedEntries, budget, "A1/committed-entries")
	for i, e := range rd.CommittedEntries {
		vpAssert(e.GetIndex() == preApplying+uint64(i)+1, "A1/contiguous-from-applying")
		vpAssert(e.GetIndex() <= l.committed, "A1/within-commit")
		if ro.async {
			vpAssert(e.GetIndex() < preOff, "A1/async-only-stable-entries")
		}
	}
	if n := len(rd.CommittedEntries); n > 0 {
		vpAssert(l.applying == rd.CommittedEntries[n-1].GetIndex(), "A1/applying-is-last-handed-out")
		vpAssert(uint64(l.applyingEntsSize) == uint64(preApplSize)+uint64(entsSize(rd.CommittedEntries)), "A1/applying-size-accounted")
	} else {
		vpAssert(vpAnd(l.applying == preApplying, l.applyingEntsSize == preApplSize), "A1/nothing-handed-out-nothing-accounted")
	}
	vpAssert(l.applied == pre.view.applied, "A2/ready-does-not-move-applied")
	// ---- read states ----
	vpAssert(len(rd.ReadStates) == nReads && len(r.readStates) == 0, "R2/read-states-handed-out-once")
	// ---- messages (C05-D1..D3) ----
	vpAssert(len(r.msgs) == 0 && len(r.msgsAfterAppend) == 0, "D2/queues-drained")
	if !ro.async {
		var wantMsgs, wantSelf []*pb.Message
		wantMsgs = append(wantMsgs, preMsgs...)
		for _, m := range preAfter {
			if m.GetTo() != r.id {
				wantMsgs = append(wantMsgs, m)
			} else {
				wantSelf = append(wantSelf, m)
			}
		}
		vpAssert(len(rd.Messages) == len(wantMsgs), "D2/messages-are-queues-minus-self")
		for i := range wantMsgs {
			if i < len(rd.Messages) {
				vpAssert(rd.Messages[i] == wantMsgs[i], "D2/messages-in-order")
			}
		}
		for _, m := range rd.Messages {
			vpAssert(m.GetTo() != r.id, "D2/no-self-message-leaves")
		}
		// stepsOnAdvance: self promises, then storage acknowledgements
		st := rn.stepsOnAdvance
		i := 0
		for _, m := range wantSelf {
			if i < len(st) {
				vpAssert(st[i] == m, "D2/self-promises-delivered-by-advance-in-order")
			}
			i++
		}
		needAppendResp := len(preUnst) > 0 || rd.Snapshot != nil
		if needAppendResp {
			vpAssert(i < len(st), "W5/storage-ack-always-requested")
			if i < len(st) {
				x := st[i]
				vpAssert(vpAnd(x.GetType() == pb.MsgStorageAppendResp, x.GetTo() == r.id, x.GetFrom() == LocalAppendThread, x.GetTerm() == r.Term), "D2/append-resp-shape")
				if len(preUnst) > 0 {
					last := preUnst[len(preUnst)-1]
					vpAssert(vpAnd(x.GetIndex() == last.GetIndex(), x.GetLogTerm() == last.GetTerm()), "D2/append-resp-stamped-with-last-entry")
				} else {
					vpAssert(x.GetIndex() == 0, "D2/append-resp-without-entries")
				}
				vpAssert((x.GetSnapshot() != nil) == (rd.Snapshot != nil), "D2/append-resp-carries-snapshot")
			}
			i++
		}
		if len(rd.CommittedEntries) > 0 {
			vpAssert(i < len(st), "A1/apply-ack-requested")
			if i < len(st) {
				x := st[i]
				vpAssert(vpAnd(x.GetType() == pb.MsgStorageApplyResp, x.GetTo() == r.id, len(x.GetEntries()) == len(rd.CommittedEntries)), "A1/apply-resp-carries-batch")
			}
			i++
		}
		vpAssert(len(st) == i, "D2/nothing-else-on-advance")
		// ---- D2 coverage: after the application persists this Ready, storage
		// holds the whole logical log, so every promise released is covered ----
		view := vpViewOf(l)
		ms := nd.ms
		if rd.HardState != nil {
			ms.SetHardState(rd.HardState)
		}
		if rd.Snapshot != nil {
			ms.ApplySnapshot(rd.Snapshot)
		}
		ms.Append(rd.Entries)
		a := vpAbsOf(ms)
		j := vpU64()
		vpAssert(vpImplies(vpAnd(j > a.base, view.has(j)), vpAnd(j <= a.last(), a.termAt(j) == view.termAt(j))), "D2/persisted-ready-covers-logical-log")
		vpAssert(a.last() == view.last, "D2/persisted-log-ends-at-last-index")
		if len(rd.Messages) > len(preMsgs) || len(wantSelf) > 0 {
			// a vote or an acknowledgement is being released: the HardState it
			// rests on is on disk
			if hs := ms.hardState; hs != nil {
				vpAssert(vpOr(!changed, vpAnd(hs.GetTerm() == r.Term, hs.GetVote() == r.Vote)), "D2/term-and-vote-persisted-before-promises")
			}
		}
	} else {
		// ---- asynchronous storage writes (C05-D3) ----
		nOther := 0
		var app, apl *pb.Message
		for _, m := range rd.Messages {
			switch m.GetType() {
			case pb.MsgStorageAppend:
				vpAssert(app == nil, "D3/one-storage-append")
				app = m
			case pb.MsgStorageApply:
				vpAssert(apl == nil, "D3/one-storage-apply")
				apl = m
			default:
				vpAssert(!vpIsPromise(m.GetType()), "D3/no-promise-outside-storage-append")
				vpAssert(m.GetTo() != r.id, "D3/no-self-message-outside-storage-append")
				if nOther < len(preMsgs) {
					vpAssert(m == preMsgs[nOther], "D3/ordinary-messages-in-order")
				}
				nOther++
			}
		}
		vpAssert(nOther == len(preMsgs), "D3/ordinary-messages-all-sent")
		need := len(rd.Entries) > 0 || rd.HardState != nil || rd.Snapshot != nil || len(preAfter) > 0
		vpAssert((app != nil) == need, "D3/storage-append-iff-needed")
		if app != nil {
			vpAssert(vpAnd(app.GetTo() == LocalAppendThread, app.GetFrom() == r.id), "D3/storage-append-target")
			vpAssert(len(app.GetEntries()) == len(rd.Entries), "D3/storage-append-carries-entries")
			if len(app.GetEntries()) == len(rd.Entries) {
				for i, e := range app.GetEntries() {
					x, y := vpSlotOf(e), vpSlotOf(rd.Entries[i])
					vpAssert(vpAnd(x.idx == y.idx, vpSlotEq(x, y)), "D3/storage-append-entries-are-the-ready-entries")
				}
			}
			if rd.HardState != nil {
				vpAssert(vpAnd(app.Term != nil, app.Vote != nil, app.Commit != nil, app.GetTerm() == r.Term, app.GetVote() == r.Vote, app.GetCommit() == l.committed), "D3/storage-append-carries-hardstate")
			} else {
				vpAssert(app.Term == nil && app.Vote == nil && app.Commit == nil, "D3/storage-append-no-hardstate-if-unchanged")
			}
			vpAssert((app.GetSnapshot() != nil) == (rd.Snapshot != nil), "D3/storage-append-carries-snapshot")
			if sn := app.GetSnapshot(); sn != nil && rd.Snapshot != nil {
				vpAssert(vpAnd(sn.GetMetadata().GetIndex() == rd.Snapshot.GetMetadata().GetIndex(), sn.GetMetadata().GetTerm() == rd.Snapshot.GetMetadata().GetTerm(), vpBlobID(sn.GetData()) == vpBlobID(rd.Snapshot.GetData())), "D3/storage-append-snapshot-is-the-ready-snapshot")
			}
			resp := app.GetResponses()
			for i, m := range preAfter {
				if i < len(resp) {
					vpAssert(resp[i] == m, "D3/responses-are-the-pending-promises-in-order")
				}
			}
			needResp := len(preUnst) > 0 || rd.Snapshot != nil
			wantLen := len(preAfter)
			if needResp {
				wantLen++
			}
			vpAssert(len(resp) == wantLen, "D3/responses-complete")
			if needResp && len(resp) == wantLen {
				x := resp[wantLen-1]
				vpAssert(vpAnd(x.GetType() == pb.MsgStorageAppendResp, x.GetTo() == r.id, x.GetFrom() == LocalAppendThread, x.GetTerm() == r.Term), "D3/append-resp-shape")
				if len(preUnst) > 0 {
					last := preUnst[len(preUnst)-1]
					vpAssert(vpAnd(x.GetIndex() == last.GetIndex(), x.GetLogTerm() == last.GetTerm()), "D3/append-resp-stamped-with-last-entry")
				}
			}
		}
		vpAssert((apl != nil) == (len(rd.CommittedEntries) > 0), "D3/storage-apply-iff-committed-entries")
		if apl != nil {
			vpAssert(vpAnd(apl.GetTo() == LocalApplyThread, len(apl.GetEntries()) == len(rd.CommittedEntries), len(apl.GetResponses()) == 1), "D3/storage-apply-shape")
			if len(apl.GetEntries()) == len(rd.CommittedEntries) {
				for i, e := range apl.GetEntries() {
					x, y := vpSlotOf(e), vpSlotOf(rd.CommittedEntries[i])
					vpAssert(vpAnd(x.idx == y.idx, vpSlotEq(x, y)), "D3/storage-apply-entries-are-the-committed-entries")
				}
			}
			if len(apl.GetResponses()) == 1 {
				x := apl.GetResponses()[0]
				vpAssert(vpAnd(x.GetType() == pb.MsgStorageApplyResp, x.GetTo() == r.id, len(x.GetEntries()) == len(rd.CommittedEntries)), "D3/apply-resp-carries-batch")
			}
		}
		vpAssert(len(rn.stepsOnAdvance) == 0, "D3/no-steps-on-advance-in-async-mode")
	}
}

// vpRawOptsFor: variant 0 "messages" (pending queues, no size limits, no
// snapshot), 1 "apply" (symbolic size quota, no pending messages), 2
// "snapshot" (pending unstable snapshot, followers only).
func vpRawOptsVar(role StateType, async bool, variant int) vpRawOpts {
	o := vpOpts{role: role, shapes: []int{0}, ls: 0, lu: 2, noSizeLimit: true, concBase: true, plainData: true}
	ro := vpRawOpts{o: o, async: async, maxMsgs: 1, maxAfter: 2}
	switch variant {
	case 1:
		ro.o.ls, ro.o.lu = 1, 1
		ro.o.noSizeLimit = false
		ro.maxMsgs, ro.maxAfter = 0, 0
	case 2:
		ro.o.unstSnap = true
		ro.o.lu = 1
		ro.maxMsgs, ro.maxAfter = 0, 1
	}
	if role == StateLeader {
		ro.o.leaderPr = false
		// the leader's cells are the largest (self-acknowledgements are stepped
		// by Advance): one unstable entry, at most one pending promise
		ro.o.lu = 1
		ro.maxMsgs = 0
		if ro.maxAfter > 1 {
			ro.maxAfter = 1
		}
	}
	return ro
}

func vpRawOptsFor(role StateType, async bool) vpRawOpts { return vpRawOptsVar(role, async, 0) }

func vpH_raw_ReadyApply_sync_F()  { vpReadyCell(vpRawOptsVar(StateFollower, false, 1)) }
func vpH_raw_ReadyApply_async_F() { vpReadyCell(vpRawOptsVar(StateFollower, true, 1)) }
func vpH_raw_ReadyApply_sync_L()  { vpReadyCell(vpRawOptsVar(StateLeader, false, 1)) }
func vpH_raw_ReadySnap_sync_F()   { vpReadyCell(vpRawOptsVar(StateFollower, false, 2)) }
func vpH_raw_ReadySnap_async_F()  { vpReadyCell(vpRawOptsVar(StateFollower, true, 2)) }
func vpH_raw_Ready_sync_F()  { vpReadyCell(vpRawOptsFor(StateFollower, false)) }
func vpH_raw_Ready_sync_C()  { vpReadyCell(vpRawOptsFor(StateCandidate, false)) }
func vpH_raw_Ready_sync_L()  { vpReadyCell(vpRawOptsFor(StateLeader, false)) }
func vpH_raw_Ready_async_F() { vpReadyCell(vpRawOptsFor(StateFollower, true)) }
func vpH_raw_Ready_async_C() { vpReadyCell(vpRawOptsFor(StateCandidate, true)) }
func vpH_raw_Ready_async_L() { vpReadyCell(vpRawOptsFor(StateLeader, true)) }

// ---------------------------------------------------------------------------
// Restart: NewRawNode on an arbitrary durable state (C07-H4, C02-E7, C08-A4)
// ---------------------------------------------------------------------------

func vpRestart(maxN int) {
	k := &vpConds{}
	raftLogger = vpLog
	vpConcreteBase = false
	ms := vpStorage(maxN, k, false)
	n := uint64(len(ms.ents) - 1)
	s := ms.ents[0].GetIndex()
	ht, hv, hc := vpU64(), vpU64(), vpU64()
	empty := vpChoose(2) == 1
	if !empty {
		ms.hardState = &pb.HardState{Term: new(ht), Vote: new(hv), Commit: new(hc)}
		k.bound(ht <= vpMaxIdx)
		// storage contract at a batch boundary: commit within the log, terms
		// of the log bounded by the durable term
		k.add(hc >= s)
		k.add(hc <= s+n)
		// a snapshot is taken of applied entries, whose commit index was
		// persisted before they were handed out
		k.add(hc >= ms.snapshot.GetMetadata().GetIndex())
		for _, e := range ms.ents {
			k.add(e.GetTerm() <= ht)
		}
		k.add(vpImplies(hv != None, ht >= 1))
	} else {
		k.add(n == 0)
		k.add(s == 0)
		k.add(true)
	}
	sh := vpShapes[vpChoose(vpSnapShapes)]
	ms.snapshot.Metadata.ConfState = vpConfState(sh)
	applied := vpU64()
	k.add(applied <= s+n)
	if !empty {
		k.add(applied <= hc)
	} else {
		k.add(applied == 0)
	}
	k.add(vpOr(applied == 0, applied >= ms.snapshot.GetMetadata().GetIndex()))
	k.add(vpOr(applied == 0, applied >= s))
	k.assume()
	cfg := &Config{ID: 1, ElectionTick: 10, HeartbeatTick: 1, Storage: ms, Applied: applied, MaxSizePerMsg: vpU64(), MaxInflightMsgs: 2,
		CheckQuorum: vpBool(), PreVote: vpBool(), AsyncStorageWrites: vpBool(), Logger: vpLog}
	rn, err := NewRawNode(cfg)
	vpAssert(err == nil, "H4/restart-succeeds")
	r := rn.raft
	vpObserve("restart", r.Term, r.Vote, r.raftLog.committed, r.raftLog.applied, uint64(r.state))
	if !empty {
		vpAssert(vpAnd(r.Term == ht, r.Vote == hv, r.raftLog.committed == hc), "H4/restart-restores-hardstate")
	} else {
		vpAssert(vpAnd(r.Term == 0, r.Vote == None), "H4/fresh-node-starts-at-term-zero")
	}
	vpAssert(vpAnd(r.state == StateFollower, r.lead == None), "E7/restart-as-follower-without-leader")
	vpAssert(len(r.trk.Votes) == 0, "E7/restart-with-empty-tally")
	want := vpIte(applied > 0, applied, s)
	vpAssert(vpAnd(r.raftLog.applied == want, r.raftLog.applying == want), "A4/restart-resumes-after-applied")
	vpAssert(vpAnd(rn.prevHardSt.GetTerm() == r.Term, rn.prevHardSt.GetVote() == r.Vote, rn.prevHardSt.GetCommit() == r.raftLog.committed), "H4/prev-hardstate-is-durable-state")
	vpAssert(vpAnd(len(r.msgs) == 0, len(r.msgsAfterAppend) == 0), "E7/restart-sends-nothing")
	cs := r.trk.ConfState()
	vpAssert(cs.Equivalent(vpConfState(sh)) == nil, "G4/restart-restores-configuration")
	ki := &vpConds{post: true}
	vpInvInto(ki, r)
	ki.assertEach("Inv/post")
	// first batch after restart starts right after applied
	rd := rn.Ready()
	for i, e := range rd.CommittedEntries {
		vpAssert(e.GetIndex() == want+uint64(i)+1, "A4/first-batch-starts-after-applied")
	}
}

func vpH_raw_Restart_2() { vpRestart(2) }
func vpH_raw_Restart_3() { vpRestart(3) }

// ---------------------------------------------------------------------------
// Ready -> persist -> Advance (synchronous mode): C05-D2/D4, C08-A2, C09-S2
// ---------------------------------------------------------------------------

func vpReadyAdvance(role StateType) {
	ro := vpRawOptsFor(role, false)
	rn, nd := vpBuildRawNode(ro)
	r := rn.raft
	l := r.raftLog
	u := &l.unstable
	ms := nd.ms
	rd := rn.Ready()
	// the application persists the Ready (step 1 of the contract)
	if rd.HardState != nil {
		ms.SetHardState(rd.HardState)
	}
	if rd.Snapshot != nil {
		ms.ApplySnapshot(rd.Snapshot)
	}
	ms.Append(rd.Entries)
	pre := vpRecord(r)
	hadSnap := u.snapshot != nil
	snapIdx := pre.view.snapIdx
	nCommitted := len(rd.CommittedEntries)
	var lastHanded uint64
	if nCommitted > 0 {
		lastHanded = rd.CommittedEntries[nCommitted-1].GetIndex()
	}
	selfMatch := pre.match[1]
	rn.Advance(rd)
	vpObserve("advance", uint64(len(u.entries)), l.applied, l.applying, uint64(r.state))
	vpAssert(len(rn.stepsOnAdvance) == 0, "D2/advance-consumes-all-steps")
	if r.Term == pre.term {
		// nothing intervened between Ready and Advance: everything handed out is stable now
		vpAssert(vpAnd(u.offset == pre.view.last+1, u.offsetInProgress >= u.offset), "W5/advance-stabilises-the-handed-out-entries")
	}
	if hadSnap {
		vpAssert(vpAnd(u.snapshot == nil, l.applied >= snapIdx), "S2/advance-completes-snapshot")
	}
	if nCommitted > 0 {
		vpAssert(vpAnd(l.applied >= lastHanded, l.applying >= l.applied), "A2/advance-marks-batch-applied")
	}
	vpAssert(vpAnd(l.applied >= pre.view.applied, l.applying >= pre.view.applying, l.committed >= pre.committed), "A2/cursors-monotone")
	// D4: the leader's own Match only rises through its persisted self-acknowledgement
	if pre.state == StateLeader && r.state == StateLeader {
		if pr := r.trk.Progress[r.id]; pr != nil {
			vpAssert(pr.Match >= selfMatch, "D4/self-match-monotone")
			vpAssert(pr.Match <= l.lastIndex(), "D4/self-match-within-log")
		}
	}
	// the next batch abuts the previous one
	rd2 := rn.Ready()
	if nCommitted > 0 {
		for i, e := range rd2.CommittedEntries {
			vpAssert(e.GetIndex() == lastHanded+uint64(i)+1, "A2/consecutive-batches-abut")
		}
	}
	ki := &vpConds{post: true}
	vpInvInto(ki, r)
	ki.assertEach("Inv/post")
}

// vpNewEntries lists log entries above idx (appended during Advance, e.g. auto-leave).
func vpNewEntries(l *raftLog, idx uint64) []*pb.Entry {
	var out []*pb.Entry
	for _, e := range l.unstable.entries {
		_ = e
	}
	return out
}

func vpH_raw_ReadyAdvance_F() { vpReadyAdvance(StateFollower) }
func vpH_raw_ReadyAdvance_C() { vpReadyAdvance(StateCandidate) }
func vpH_raw_ReadyAdvance_L() { vpReadyAdvance(StateLeader) }

// ---------------------------------------------------------------------------
// C02-E6: durable term before leading, asynchronous storage writes.
// A follower campaigns; its Ready is taken but the append thread has not run;
// two arbitrary vote responses are stepped.
// ---------------------------------------------------------------------------

func vpAsyncElection(async bool, shapes ...int) {
	ro := vpRawOptsFor(StateFollower, async)
	if len(shapes) > 0 {
		ro.o.shapes = shapes
	}
	ro.maxMsgs, ro.maxAfter = 0, 0
	ro.o.unstSnap = false
	ro.o.lu = 0
	rn, nd := vpBuildRawNode(ro)
	r := rn.raft
	// everything is durable before the campaign starts
	vpAssume(vpAnd(rn.prevHardSt.GetTerm() == r.Term, rn.prevHardSt.GetVote() == r.Vote, !r.preVote, r.raftLog.applied == r.raftLog.committed))
	durableTerm := r.Term
	_ = rn.Campaign()
	rd := rn.Ready()
	var sendable []*pb.Message
	for _, m := range rd.Messages {
		if m.GetType() == pb.MsgStorageAppend || m.GetType() == pb.MsgStorageApply {
			continue
		}
		sendable = append(sendable, m)
	}
	if !async {
		// synchronous contract: the application writes rd.HardState before it
		// sends rd.Messages
		if rd.HardState != nil {
			nd.ms.SetHardState(rd.HardState)
			durableTerm = rd.HardState.GetTerm()
		}
	}
	// (Vote requests may leave before the write completes in asynchronous mode;
	// that alone breaks nothing the property states, as long as the node does
	// not act as leader before its term is durable.)
	_ = sendable
	// two responses arrive before the storage write completes
	for i := 0; i < 2; i++ {
		k := &vpConds{}
		m := vpMessage(vpMsgOpts{typ: pb.MsgVoteResp}, k)
		vpValidity(r, m, k)
		k.add(m.GetFrom() != r.id)
		k.assume()
		_ = rn.Step(m)
	}
	vpObserve("e6", uint64(r.state), r.Term, durableTerm)
	vpAssert(vpImplies(r.state == StateLeader, durableTerm == r.Term), "E6/leader-only-with-durable-term")
}

func vpH_raw_Election_async() { vpAsyncElection(true) }
func vpH_raw_Election_sync()  { vpAsyncElection(false) }

// joint configurations, including one where this node votes only in the
// outgoing half, and the single-voter cluster
func vpH_raw_Election_async_joint() { vpAsyncElection(true, 2, 1, 6) }

// only the configuration in which this node votes in the outgoing half alone
func vpH_raw_Election_async_outgoing() { vpAsyncElection(true, 2) }
