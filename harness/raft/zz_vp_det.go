//go:build verif

package raft

import (
	pb "go.etcd.io/raft/v3/raftpb"
)

// ---------------------------------------------------------------------------
// C19: determinism, decided relationally. The same symbolic node state and the
// same symbolic message are built three times (vpRewindInputs re-issues the
// same inputs); Step runs under three different map-iteration policies; the
// solver must show that every observable output is equal for all inputs.
// ---------------------------------------------------------------------------

type vpMsgDigest struct {
	typ, to, from, term, index, logTerm, commit, hint, nents, ctxLen, vote uint64
	reject, hasSnap                                                          bool
	ents                                                                     []vpSlot
	ctx                                                                      []byte
}

type vpDigest struct {
	err                                             bool
	term, vote, lead, state, transferee            uint64
	committed, applied, applying, pendingConf, unc uint64
	elapsed, hbElapsed                              uint64
	view                                            vpView
	msgs, after                                     []vpMsgDigest
	prIDs                                           []uint64
	match, next, pstate, pending, infl             []uint64
	paused, active, learner                         []bool
	voteIDs                                         []uint64
	voteVals                                        []bool
	readIdx                                         []uint64
	nUnconf                                         int
	confirmed                                       uint64
	cfg                                             *pb.ConfState
}

func vpDigestMsg(m *pb.Message) vpMsgDigest {
	d := vpMsgDigest{typ: uint64(m.GetType()), to: m.GetTo(), from: m.GetFrom(), term: m.GetTerm(), index: m.GetIndex(), logTerm: m.GetLogTerm(),
		commit: m.GetCommit(), hint: m.GetRejectHint(), nents: uint64(len(m.GetEntries())), ctxLen: uint64(len(m.GetContext())), vote: m.GetVote(),
		reject: m.GetReject(), hasSnap: m.GetSnapshot() != nil, ctx: m.GetContext()}
	for _, e := range m.GetEntries() {
		d.ents = append(d.ents, vpSlotOf(e))
	}
	return d
}

func vpDigestOf(r *raft, err error) vpDigest {
	d := vpDigest{err: err != nil, term: r.Term, vote: r.Vote, lead: r.lead, state: uint64(r.state), transferee: r.leadTransferee,
		committed: r.raftLog.committed, applied: r.raftLog.applied, applying: r.raftLog.applying, pendingConf: r.pendingConfIndex, unc: uint64(r.uncommittedSize),
		elapsed: uint64(r.electionElapsed), hbElapsed: uint64(r.heartbeatElapsed), view: vpViewOf(r.raftLog), nUnconf: len(r.readOnly.unconfirmedReads), confirmed: r.readOnly.confirmedReads}
	for _, m := range r.msgs {
		d.msgs = append(d.msgs, vpDigestMsg(m))
	}
	for _, m := range r.msgsAfterAppend {
		d.after = append(d.after, vpDigestMsg(m))
	}
	for id := uint64(1); id <= 4; id++ {
		if pr := r.trk.Progress[id]; pr != nil {
			d.prIDs = append(d.prIDs, id)
			d.match = append(d.match, pr.Match)
			d.next = append(d.next, pr.Next)
			d.pstate = append(d.pstate, uint64(pr.State))
			d.pending = append(d.pending, pr.PendingSnapshot)
			d.infl = append(d.infl, uint64(pr.Inflights.Count()))
			d.paused = append(d.paused, pr.MsgAppFlowPaused)
			d.active = append(d.active, pr.RecentActive)
			d.learner = append(d.learner, pr.IsLearner)
		}
		if v, ok := r.trk.Votes[id]; ok {
			d.voteIDs = append(d.voteIDs, id)
			d.voteVals = append(d.voteVals, v)
		}
	}
	for _, rs := range r.readStates {
		d.readIdx = append(d.readIdx, rs.Index)
	}
	d.cfg = r.trk.ConfState()
	return d
}

func vpMsgsEqual(a, b []vpMsgDigest, label string) {
	vpAssert(len(a) == len(b), label+"/count")
	if len(a) != len(b) {
		return
	}
	for i := range a {
		x, y := a[i], b[i]
		vpAssert(vpAnd(x.typ == y.typ, x.to == y.to, x.from == y.from, x.term == y.term, x.index == y.index, x.logTerm == y.logTerm, x.commit == y.commit,
			x.hint == y.hint, x.nents == y.nents, x.ctxLen == y.ctxLen, x.vote == y.vote, x.reject == y.reject, x.hasSnap == y.hasSnap), label+"/fields-in-order")
		if len(x.ents) == len(y.ents) {
			for j := range x.ents {
				vpAssert(vpAnd(x.ents[j].idx == y.ents[j].idx, vpSlotEq(x.ents[j], y.ents[j])), label+"/entries")
			}
		}
		vpAssert(vpBytesEq(x.ctx, y.ctx), label+"/context")
	}
}

func vpDigestsEqual(a, b vpDigest, label string) {
	vpAssert(vpAnd(a.err == b.err, a.term == b.term, a.vote == b.vote, a.lead == b.lead, a.state == b.state, a.transferee == b.transferee,
		a.committed == b.committed, a.applied == b.applied, a.applying == b.applying, a.pendingConf == b.pendingConf, a.unc == b.unc,
		a.elapsed == b.elapsed, a.hbElapsed == b.hbElapsed), label+"/scalars")
	vpAssert(vpAnd(a.view.first == b.view.first, a.view.last == b.view.last, a.view.offset == b.view.offset, a.view.offsetInProg == b.view.offsetInProg, a.view.hasSnap == b.view.hasSnap,
		a.view.snapIdx == b.view.snapIdx, a.view.snapTerm == b.view.snapTerm, len(a.view.unst) == len(b.view.unst), len(a.view.stor) == len(b.view.stor)), label+"/log-shape")
	j := vpU64()
	vpAssert(vpSlotEq(a.view.slotAt(j), b.view.slotAt(j)), label+"/log-entries")
	vpMsgsEqual(a.msgs, b.msgs, label+"/messages")
	vpMsgsEqual(a.after, b.after, label+"/after-append-messages")
	vpAssert(len(a.prIDs) == len(b.prIDs) && len(a.voteIDs) == len(b.voteIDs) && len(a.readIdx) == len(b.readIdx) && a.nUnconf == b.nUnconf, label+"/collection-sizes")
	if len(a.prIDs) == len(b.prIDs) {
		for i := range a.prIDs {
			vpAssert(vpAnd(a.prIDs[i] == b.prIDs[i], a.match[i] == b.match[i], a.next[i] == b.next[i], a.pstate[i] == b.pstate[i], a.pending[i] == b.pending[i],
				a.infl[i] == b.infl[i], a.paused[i] == b.paused[i], a.active[i] == b.active[i], a.learner[i] == b.learner[i]), label+"/progress")
		}
	}
	if len(a.voteIDs) == len(b.voteIDs) {
		for i := range a.voteIDs {
			vpAssert(vpAnd(a.voteIDs[i] == b.voteIDs[i], a.voteVals[i] == b.voteVals[i]), label+"/votes")
		}
	}
	if len(a.readIdx) == len(b.readIdx) {
		for i := range a.readIdx {
			vpAssert(a.readIdx[i] == b.readIdx[i], label+"/read-states")
		}
	}
	vpAssert(a.confirmed == b.confirmed, label+"/read-confirmed")
	vpAssert(a.cfg.Equivalent(b.cfg) == nil, label+"/configuration")
}

func vpDetOnce(role StateType, typ pb.MessageType, shapes []int, policy int) vpDigest {
	vpSetMapOrder(policy)
	o := vpDefaultOpts(role)
	o.shapes = shapes
	if role == StateLeader {
		o.reads = 1
		o.ls, o.lu = 0, 1
		o.plainData = true
		if typ == pb.MsgAppResp || typ == pb.MsgHeartbeatResp {
			vpFromOnly = 2
		}
	}
	mo := vpMsgOpts{typ: typ}
	switch typ {
	case pb.MsgApp:
		mo.maxEnts = 1
	case pb.MsgProp:
		mo.maxEnts = 1
		mo.propEnts = true
	case pb.MsgVote, pb.MsgPreVote, pb.MsgHeartbeat, pb.MsgHeartbeatResp:
		mo.ctx = true
	case pb.MsgSnap:
		mo.snap = true
		o.unstSnap = true
	case pb.MsgReadIndex:
		mo.maxEnts = 1
		mo.propEnts = true
	case pb.MsgVoteResp, pb.MsgPreVoteResp:
		o.votes = true
	}
	nd := vpBuild(o)
	r := nd.r
	k := &vpConds{}
	m := vpMessage(mo, k)
	vpValidity(r, m, k)
	k.assume()
	err := r.Step(m)
	vpSetMapOrder(0)
	return vpDigestOf(r, err)
}

func vpDetCell(role StateType, typ pb.MessageType, shapes []int) {
	d0 := vpDetOnce(role, typ, shapes, 0)
	vpObserve("det", d0.term, d0.vote, d0.state, d0.committed, uint64(len(d0.msgs)), uint64(len(d0.after)))
	vpRewindInputs()
	d1 := vpDetOnce(role, typ, shapes, 1)
	vpDigestsEqual(d0, d1, "T1/order-descending")
	vpRewindInputs()
	d2 := vpDetOnce(role, typ, shapes, 2)
	vpDigestsEqual(d0, d2, "T1/order-rotated")
}

// vpDetCellAll: all six iteration orders of every (at most three-key) map
func vpDetCellAll(role StateType, typ pb.MessageType, shapes []int) {
	d0 := vpDetOnce(role, typ, shapes, 0)
	vpObserve("det", d0.term, d0.vote, d0.state, d0.committed, uint64(len(d0.msgs)), uint64(len(d0.after)))
	for _, pol := range []int{1, 2, 3, 4, 5} {
		vpRewindInputs()
		d := vpDetOnce(role, typ, shapes, pol)
		vpDigestsEqual(d0, d, "T1/all-orders")
	}
}

func vpH_detAll_F_MsgHup()          { vpDetCellAll(StateFollower, pb.MsgHup, []int{0, 1}) }
func vpH_detAll_C_MsgVoteResp()     { vpDetCellAll(StateCandidate, pb.MsgVoteResp, []int{0, 1}) }
func vpH_detAll_L_MsgBeat()         { vpDetCellAll(StateLeader, pb.MsgBeat, []int{0, 1}) }
func vpH_detAll_L_MsgCheckQuorum()  { vpDetCellAll(StateLeader, pb.MsgCheckQuorum, []int{0, 1}) }
func vpH_detAll_L_MsgHeartbeatResp() { vpDetCellAll(StateLeader, pb.MsgHeartbeatResp, []int{1}) }
func vpH_detAll_L_MsgProp()         { vpDetCellAll(StateLeader, pb.MsgProp, []int{1}) }

var vpJointShapes = []int{0, 1, 7}

func vpH_det_F_MsgVote()          { vpDetCell(StateFollower, pb.MsgVote, vpJointShapes) }
func vpH_det_F_MsgApp()           { vpDetCell(StateFollower, pb.MsgApp, []int{0}) }
func vpH_det_F_MsgHup()           { vpDetCell(StateFollower, pb.MsgHup, vpJointShapes) }
func vpH_det_F_MsgHup_bigids()    { vpDetCell(StateFollower, pb.MsgHup, []int{10}) }
func vpH_det_L_MsgBeat_bigids()   { vpDetCell(StateLeader, pb.MsgBeat, []int{10}) }
func vpH_det_F_MsgSnap()          { vpDetCell(StateFollower, pb.MsgSnap, []int{0}) }
func vpH_det_C_MsgVoteResp()      { vpDetCell(StateCandidate, pb.MsgVoteResp, vpJointShapes) }
func vpH_det_P_MsgPreVoteResp()   { vpDetCell(StatePreCandidate, pb.MsgPreVoteResp, vpJointShapes) }
func vpH_det_L_MsgAppResp()       { vpDetCell(StateLeader, pb.MsgAppResp, []int{1}) }
func vpH_det_L_MsgHeartbeatResp() { vpDetCell(StateLeader, pb.MsgHeartbeatResp, []int{1}) }
func vpH_det_L_MsgProp()          { vpDetCell(StateLeader, pb.MsgProp, []int{1}) }
func vpH_det_L_MsgBeat()          { vpDetCell(StateLeader, pb.MsgBeat, vpJointShapes) }
func vpH_det_L_MsgCheckQuorum()   { vpDetCell(StateLeader, pb.MsgCheckQuorum, vpJointShapes) }
func vpH_det_L_MsgReadIndex()     { vpDetCell(StateLeader, pb.MsgReadIndex, []int{0, 1}) }
