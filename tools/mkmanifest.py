#!/usr/bin/env python3
"""Regenerates /verif/MANIFEST.json from specs/checks.json and specs/manifest_meta.json."""
import json, os, sys
V = '/verif'
specs = json.load(open(f'{V}/specs/checks.json'))
meta = json.load(open(f'{V}/specs/manifest_meta.json'))
props = [json.loads(l) for l in open(f'{V}/properties.jsonl')]
ENV = 'PATH=/opt/veriftools/go1.26.8/bin:$PATH GOTOOLCHAIN=local GOFLAGS=-mod=mod GOPROXY=off GOSUMDB=off'
m = {
 "version": 1,
 "setup_cmd": f"cd /verif/engine && {ENV} go build -o /verif/bin/vsym ./cmd/vsym",
 "hooks": {
  "guard": "verif",
  "enable": "harness files (/verif/harness/<pkg>/zz_vp_*.go, //go:build verif) are injected into the /repo packages by go/packages overlay (symbolic engine) and `go test -tags verif -overlay` (native replay); /repo itself is never modified",
  "baseline_off_cmd": f"cd /repo && {ENV} go test -vet=off -count=1 -timeout 25m ./...",
  "source_commits": [],
  "add_only": True
 },
 "engines": [{
  "name": "vsym",
  "path": "/verif/engine",
  "serves_properties": sorted(specs.keys()),
  "kind_free_text": "forking symbolic executor over go/ssa of the real packages (concrete heap shape, symbolic 64-bit scalars, path re-execution from decision prefixes), z3 decides every branch feasibility and every assertion; counterexamples and sampled paths are replayed natively with go test -overlay"
 }],
 "checks": [],
 "not_applicable": [],
 "notes": meta.get("notes", "")
}
for p in props:
    pid = p['id']
    if pid in specs and pid in meta['claimed']:
        c = meta['claimed'][pid]
        chk = {
         "property_id": pid,
         "quick_cmd": f"/verif/bin/vsym check {pid} --tier quick",
         "thorough_cmd": f"/verif/bin/vsym check {pid} --tier thorough",
         "evidence_file": f"/verif/evidence/{pid}.json",
         "replay_cmd_template": "/verif/bin/vsym replay {path}",
         "engine": "vsym",
         "level_claimed": {"category": specs[pid]['level'], "text": c['text'], "design_ref": c.get('design_ref', 'DESIGN.md section 5')},
         "level_note": c['note'],
         "technique": c.get('technique', 'bounded symbolic execution of the real code from go/ssa; every path assertion decided by z3 (SMT, QF_BV); counterexamples replayed natively')
        }
        m['checks'].append(chk)
    else:
        m['not_applicable'].append({"property_id": pid, "reason": meta['not_applicable'].get(pid, "check not built yet (see DESIGN.md section 8 build order)")})
json.dump(m, open(f'{V}/MANIFEST.json', 'w'), indent=1)
print("checks:", [c['property_id'] for c in m['checks']])
