#!/usr/bin/env python3
"""Cross-check a vsym SMT transcript (vsym run -j 1 -smtlog FILE) against other solvers.

The transcript is the exact incremental command stream worker 0 sent to z3 4.8.12
(push/pop, define-fun, assert, check-sat) with z3's answers as '; <- ' comments.
The same stream (minus get-value/echo) is fed to z3-new (5.1.0) and to
cvc5 --incremental; verdicts are compared query by query. A sat/unsat
disagreement is an alarm about the encoding->solver step; unknown on either
side is counted, not compared.

usage: xcheck.py TRANSCRIPT [--solvers z3-new,cvc5] [--tlimit ms] [--max N]
prints one JSON line per solver; exit 1 on any disagreement or error line.
"""
import json
import subprocess
import sys
import time


def parse(path, maxq):
    cmds, answers = [], []
    want = False
    n = 0
    for line in open(path, errors='replace'):
        line = line.rstrip('\n')
        if line.startswith('; <- '):
            a = line[5:].strip()
            if want and a in ('sat', 'unsat', 'unknown', 'timeout'):
                answers.append('unknown' if a == 'timeout' else a)
                want = False
            continue
        if line.startswith('(get-value') or line.startswith('(echo'):
            continue
        if line.startswith('(check-sat'):
            if maxq and n >= maxq:
                break
            if want:  # previous query got no verdict (solver died)
                answers.append('unknown')
            want = True
            n += 1
        cmds.append(line)
    if want:
        answers.append('unknown')
    return cmds, answers


def run(solver, cmds, tlimit):
    if solver == 'cvc5':
        argv = ['cvc5', '--incremental', '--lang=smt2', '--tlimit-per=%d' % tlimit]
        pre = ['(set-logic ALL)']
    else:
        argv = [solver, '-in', '-smt2', '-t:%d' % tlimit]
        pre = []
    t0 = time.time()
    p = subprocess.run(argv, input='\n'.join(pre + cmds) + '\n', capture_output=True, text=True)
    out = []
    errs = []
    for l in (p.stdout + p.stderr).splitlines():
        l = l.strip()
        if l in ('sat', 'unsat', 'unknown', 'timeout'):
            out.append('unknown' if l == 'timeout' else l)
        elif l.startswith('(error') or 'rror' in l:
            errs.append(l)
    return out, errs, time.time() - t0


def main():
    args = sys.argv[1:]
    if not args:
        print(__doc__)
        sys.exit(2)
    path = args[0]
    solvers = ['z3-new', 'cvc5']
    tlimit, maxq = 10000, 0
    i = 1
    while i < len(args):
        if args[i] == '--solvers':
            solvers = args[i + 1].split(',')
        elif args[i] == '--tlimit':
            tlimit = int(args[i + 1])
        elif args[i] == '--max':
            maxq = int(args[i + 1])
        i += 2
    cmds, ref = parse(path, maxq)
    bad = False
    for s in solvers:
        got, errs, secs = run(s, cmds, tlimit)
        agree = disagree = unk = 0
        first = None
        for k, a in enumerate(ref):
            b = got[k] if k < len(got) else 'unknown'
            if a == 'unknown' or b == 'unknown':
                unk += 1
            elif a == b:
                agree += 1
            else:
                disagree += 1
                if first is None:
                    first = {'query': k, 'z3_4_8_12': a, s: b}
        rec = {'transcript': path, 'solver': s, 'queries': len(ref), 'answers': len(got), 'agree': agree,
               'disagree': disagree, 'unknown_either': unk, 'error_lines': len(errs), 'seconds': round(secs, 1)}
        if first:
            rec['first_disagreement'] = first
        if errs:
            rec['first_error'] = errs[0][:200]
        print(json.dumps(rec))
        if disagree or errs or len(got) != len(ref):
            bad = True
    sys.exit(1 if bad else 0)


if __name__ == '__main__':
    main()
