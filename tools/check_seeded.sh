#!/bin/bash
# Regression over the seeded changes: applies every /verif/seeded/<id>/patch.diff to the scratch
# worktree /tmp/repo2 and runs the harness recorded in its meta.json (detected_by.harness);
# prints DETECTED / MISSED per change. usage: tools/check_seeded.sh [jobs] [id-regexp]
J=${1:-6}; RE=${2:-.}
cd /verif
for d in seeded/*/; do
  id=$(basename $d)
  echo "$id" | grep -Eq "$RE" || continue
  h=$(python3 -c "import json,sys;print(json.load(open('$d/meta.json'))['detected_by']['harness'].split()[0].split('(')[0])")
  pol=$(python3 -c "import json,re;h=json.load(open('$d/meta.json'))['detected_by']['harness'];m=re.search(r'policy (\d)',h);print(m.group(1) if m else 0)")
  (cd /tmp/repo2 && git checkout -q -- . && git apply /verif/$d/patch.diff) || { echo "$id APPLY-FAILED"; continue; }
  out=$(timeout 1500 bin/vsym run -repo /tmp/repo2 -h "^${h}\$" -j $J -panics -policy $pol -maxpaths 40000 2>&1)
  n=$(echo "$out" | grep -c "VIOLATION")
  if [ "$n" -gt 0 ]; then echo "$id DETECTED by $h ($(echo "$out" | grep VIOLATION | head -1 | awk '{print $3, $4}'))"; else echo "$id MISSED by $h: $(echo "$out" | grep '^==' | cut -c1-120)"; fi
done
git -C /tmp/repo2 checkout -q -- .
