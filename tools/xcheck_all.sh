#!/bin/bash
# Solver cross-check: one harness per family is explored by a single worker with
# its full incremental SMT transcript logged; the transcript is then re-decided
# by z3-new 5.1.0 and cvc5 (tools/xcheck.py). Results: /verif/xcheck/results.jsonl
# usage: tools/xcheck_all.sh [maxpaths]
cd /verif
MP=${1:-400}
mkdir -p xcheck out/xcheck
: > xcheck/results.jsonl
rc=0
for h in vpH_q_JointCommit_3 vpH_t_ProgressOps vpH_t_InflightsFree_3 vpH_c_Simple_k1 vpH_log_maybeAppend_1_1_2 vpH_log_slice_2_1 \
         vpH_step_F_MsgApp vpH_step_F_MsgVote vpH_step_C_MsgVoteResp vpH_step_L_MsgHeartbeatResp_from2 vpH_step_L_MsgProp_lean \
         vpH_raw_Ready_async_F vpH_raw_Restart_2 vpH_conf_Apply_F vpH_ack_ApplyResp_L vpH_read_L_MsgReadIndex vpH_tick_Election_F vpH_det_F_MsgVote; do
  t=out/xcheck/$h.smt2
  timeout 1800 bin/vsym run -h "$h\$" -j 1 -maxpaths $MP -budget 600 -smtlog $t > out/xcheck/$h.run.log 2>&1
  timeout 3600 python3 tools/xcheck.py $t --tlimit 20000 | sed "s|^{|{\"harness\": \"$h\", |" >> xcheck/results.jsonl || rc=1
  rm -f $t
done
cat xcheck/results.jsonl
exit $rc
