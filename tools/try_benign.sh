#!/bin/bash
# apply a (supposedly property-preserving) patch to the scratch worktree /tmp/repo2 and run whole quick checks on it
# usage: tools/try_benign.sh <patch> <check-id>...
P=$1; shift
cd /tmp/repo2 && git checkout -q -- . && git apply "$P" || { echo "APPLY FAILED"; exit 3; }
cd /verif
for id in "$@"; do
  timeout 3000 bin/vsym check $id --tier quick -repo /tmp/repo2 -no-evidence -j 16 > /tmp/ben/check_$id.log 2>&1; rc=$?
  echo "== $id exit=$rc $(grep -c VIOLATION /tmp/ben/check_$id.log) violation lines"
  grep "VIOLATION\|KNOWN-FINDING\|INCONCLUSIVE\|vacu" /tmp/ben/check_$id.log | cut -c1-300 | head -5
done
git -C /tmp/repo2 checkout -q -- .
