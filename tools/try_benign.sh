#!/bin/bash
# apply a (supposedly property-preserving) patch to a scratch worktree and run whole quick checks on it
# usage: tools/try_benign.sh <worktree> <patch> <jobs> <check-id>...
WT=$1; P=$2; J=$3; shift 3
cd $WT && git checkout -q -- . && git apply "$P" || { echo "APPLY FAILED $P"; exit 3; }
cd /verif
tag=$(basename $WT)_$(basename $(dirname $P))
for id in "$@"; do
  timeout 3600 bin/vsym check $id --tier quick -repo $WT -no-evidence -j $J > /tmp/ben/check_${tag}_$id.log 2>&1; rc=$?
  echo "== $tag $id exit=$rc violations=$(grep -c VIOLATION /tmp/ben/check_${tag}_$id.log)"
  grep "VIOLATION\|KNOWN-FINDING\|INCONCLUSIVE\|vacu" /tmp/ben/check_${tag}_$id.log | cut -c1-300 | head -4
done
git -C $WT checkout -q -- .
