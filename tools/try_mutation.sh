#!/bin/bash
# usage: try_mutation.sh <patch.diff> <harness-regexp> [extra vsym run args]
# applies the patch to /repo, runs the matching harnesses, reverts /repo.
P=$1; H=$2; shift 2
cd /repo && git apply "$P" || { echo "APPLY FAILED"; exit 3; }
cd /verif && timeout 1500 bin/vsym.next run -h "$H" -j 8 -maxpaths 30000 "$@" 2>&1 | grep "^==\|VIOLATION\|INCONCL\|panic x" | cut -c1-260 | awk '/VIOLATION/ {v++; if (v<=2) print; next} {print} END {print "violations printed/total:", (v>2?2:v+0) "/" v+0}'
git -C /repo checkout -- .
git -C /repo status --short | head -3
