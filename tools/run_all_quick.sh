#!/bin/bash
# runs every property's quick check sequentially; logs under /verif/out/quick/
# (the summary line also counts what a plain exit status no longer shows:
#  INCONCLUSIVE / VACUOUS / ENCODER-ERROR lines)
mkdir -p /verif/out/quick
for id in "$@"; do
  /verif/bin/vsym check $id --tier ${TIER:-quick} $EXTRA > /verif/out/quick/$id.log 2>&1
  rc=$?
  echo "$id exit=$rc incomplete=$(grep -c '^INCONCLUSIVE\|^VACUOUS\|^ENCODER-ERROR' /verif/out/quick/$id.log) $(tail -1 /verif/out/quick/$id.log)" >> /verif/out/quick/SUMMARY.txt
done
