#!/bin/bash
# runs every property's quick check sequentially; logs under /verif/out/quick/
mkdir -p /verif/out/quick
for id in "$@"; do
  /verif/bin/vsym check $id --tier quick > /verif/out/quick/$id.log 2>&1
  echo "$id exit=$? $(tail -1 /verif/out/quick/$id.log)" >> /verif/out/quick/SUMMARY.txt
done
