#!/bin/bash
# like try_mutation.sh but on the scratch worktree /tmp/repo2 (so that checks running against /repo are not disturbed)
P=$1; H=$2; shift 2
cd /tmp/repo2 && git checkout -q -- . && git apply "$P" || { echo "APPLY FAILED"; exit 3; }
cd /verif && timeout 1500 bin/vsym run -repo /tmp/repo2 -h "$H" -j 6 -maxpaths 30000 "$@" 2>&1 | grep "^==\|VIOLATION\|INCONCL\|panic x" | cut -c1-260 | awk '/VIOLATION/ {v++; if (v<=2) print; next} {print} END {print "violations printed/total:", (v>2?2:v+0) "/" v+0}'
git -C /tmp/repo2 checkout -q -- .
