#!/usr/bin/env python3
"""Generates /verif/specs/checks.json: property -> tier -> harness cells and the
assertion-label prefixes that belong to the property (DESIGN.md appendix B)."""
import json

R4 = 'FCPL'

def step(roles, typ, tier=''):
    return [f'vpH_step{tier}_{r}_{typ}' for r in roles]

def H(names, labels, **kw):
    out = []
    for n in names:
        d = {"h": n, "labels": labels}
        d.update(kw)
        out.append(d)
    return out

# ---- cell groups (quick bounds) ----
VOTE_Q = step('FCPL', 'MsgVote') + step('FCPL', 'MsgPreVote')
VRESP_Q = step('CP', 'MsgVoteResp') + step('CP', 'MsgPreVoteResp') + step('F', 'MsgVoteResp')
HUP_Q = step('FCP', 'MsgHup') + step('FCP', 'MsgTimeoutNow')
HB_Q = step('FCP', 'MsgHeartbeat')
APP_Q = step('F', 'MsgApp')
SNAP_Q = step('F', 'MsgSnap')
PROP_Q = step('FCPL', 'MsgProp')
LEAD_Q = step('L', 'MsgHeartbeatResp') + step('L', 'MsgBeat') + step('L', 'MsgCheckQuorum') + step('L', 'MsgSnapStatus') + step('L', 'MsgUnreachable') + step('L', 'MsgTransferLeader') + step('L', 'MsgReadIndex')
LEAD_ACK_Q = step('L', 'MsgAppResp')
SMALL_Q = step('F', 'MsgAppResp') + step('C', 'MsgAppResp') + step('F', 'MsgHeartbeatResp') + step('F', 'MsgBeat') + step('F', 'MsgCheckQuorum') + step('F', 'MsgTransferLeader') + step('F', 'MsgReadIndex') + step('F', 'MsgReadIndexResp') + step('FL', 'MsgForgetLeader')
READ_Q = ['vpH_read_L_MsgReadIndex', 'vpH_read_L_MsgHeartbeatResp']
READ_SINGLETON = ['vpH_read_L_MsgReadIndex_singleton']
RAW_Q = ['vpH_raw_Ready_sync_F', 'vpH_raw_Ready_sync_L', 'vpH_raw_Ready_async_F', 'vpH_raw_Ready_async_L']
RAW_ADV_Q = ['vpH_raw_ReadyAdvance_F', 'vpH_raw_ReadyAdvance_L']
RESTART_Q = ['vpH_raw_Restart_2']
ACK_Q = ['vpH_ack_ApplyResp_L', 'vpH_ack_ApplyResp_F', 'vpH_ack_AppendResp_F', 'vpH_ack_AppendResp_L']
TICK_Q = ['vpH_tick_CheckQuorum_inactive_et2', 'vpH_tick_CheckQuorum_singleton', 'vpH_tick_Election_F', 'vpH_tick_TransferAbort_et2']
LOG_Q = ['vpH_log_storageAppend_2_2', 'vpH_log_storageCompact_2', 'vpH_log_storageSnapshots_2', 'vpH_log_storageQueries_2', 'vpH_log_queries_1_1', 'vpH_log_unstableOps_1_2', 'vpH_log_maybeAppend_1_1_2']

ALL_Q = VOTE_Q + VRESP_Q + HUP_Q + HB_Q + APP_Q + SNAP_Q + PROP_Q + LEAD_Q + SMALL_Q

# ---- thorough ----
def T(names):
    return [n.replace('vpH_step_', 'vpH_stepT_') for n in names]

specs = {}

def prop(pid, level, quick, thorough, bounds, assumptions, explanation, qbudget=1500, tbudget=14000):
    specs[pid] = {
        "level": level,
        "quick": {"budget_s": qbudget, "harnesses": quick},
        "thorough": {"budget_s": tbudget, "timeout_ms": 120000, "harnesses": thorough},
        "bounds_text": bounds,
        "assumptions": assumptions,
        "explanation": explanation,
    }

COMMON_ASSUME = [
    "pre-state: any node state satisfying the representation invariant Inv (DESIGN 3.1), which the same harnesses show to be preserved by every step (label Inv/post)",
    "messages: V-term, V-self, V-app, V-hb, V-snap, V-ack of DESIGN 3.2 where the cell needs them for Inv/no-panic; safety effects are asserted without them",
    "indexes, terms <= 2^40, byte sizes <= 2^40 (no wrap-around); node ids 1..3 concrete in configurations, message sender id symbolic",
    "the composition of the single-node step obligations into the cluster-wide statement is the standard Raft argument and is not machine-checked (DESIGN 3.4)",
]
STEP_BOUNDS_Q = "quick: storage entries <= 1, unstable entries <= 1 (<= 2 in Ready cells), message entries <= 2, configuration shape fixed to three voters unless the cell lists others (joint {1,2,3}&&{1,2}, learner, self-removed, singleton), leader cells: one peer with fully symbolic Progress and <= 1 in-flight message, the other a caught-up replica; size limits symbolic only in the size cells. thorough: storage/unstable <= 2/2, shapes {simple, joint, learner, joint+LearnersNext}, both peers symbolic, <= 2 in-flight."

# C12 / C13 keep their own lists
specs["C12"] = json.load(open('/verif/specs/checks.json')).get("C12") if False else None
