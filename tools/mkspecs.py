#!/usr/bin/env python3
"""Generates /verif/specs/checks.json: property -> tier -> harness cells and the
assertion-label prefixes that belong to the property (DESIGN.md appendix B)."""
import json

def step(roles, typ, tier=''):
    return [f'vpH_step{tier}_{r}_{typ}' for r in roles]

def H(names, labels, **kw):
    out = []
    for n in names:
        d = {"h": n, "labels": labels}
        d.update(kw)
        out.append(d)
    return out

def T(names):
    return [n.replace('vpH_step_', 'vpH_stepT_') for n in names]

# ---- cell groups ----
VOTE = step('FCPL', 'MsgVote') + step('FCPL', 'MsgPreVote')
VRESP = step('CP', 'MsgVoteResp') + step('CP', 'MsgPreVoteResp') + step('FL', 'MsgVoteResp') + step('FL', 'MsgPreVoteResp')
HUP = step('FCPL', 'MsgHup') + step('FCPL', 'MsgTimeoutNow')
HB = step('FCPL', 'MsgHeartbeat')
APP = step('FCP', 'MsgApp')
APP_L = step('L', 'MsgApp')
SNAP = step('FCP', 'MsgSnap')
SNAP_L = step('L', 'MsgSnap')
PROP = step('FCPL', 'MsgProp')
LEAD = step('L', 'MsgBeat') + step('L', 'MsgCheckQuorum') + step('L', 'MsgSnapStatus') + step('L', 'MsgUnreachable') + step('L', 'MsgTransferLeader') + step('L', 'MsgReadIndex')
LEAD_HBR = step('L', 'MsgHeartbeatResp')
LEAD_ACK = step('L', 'MsgAppResp')
SMALL = step('FC', 'MsgAppResp') + step('F', 'MsgHeartbeatResp') + step('F', 'MsgBeat') + step('F', 'MsgCheckQuorum') + step('F', 'MsgTransferLeader') + step('F', 'MsgReadIndex') + step('F', 'MsgReadIndexResp') + step('FL', 'MsgForgetLeader')
READ = ['vpH_read_L_MsgReadIndex', 'vpH_read_L_MsgHeartbeatResp']
READ_J = ['vpH_read_L_MsgHeartbeatResp_joint']
READ_PEND = ['vpH_read_L_MsgAppResp_pending']
READ_PEND_T = ['vpH_read_L_MsgAppResp_pending', 'vpH_read_L_MsgAppResp_pending_joint']
HUP_X = ['vpH_step_F_MsgHup_snap', 'vpH_step_F_MsgHup_paged']
READ_SINGLETON = ['vpH_read_L_MsgReadIndex_singleton']
RAW = ['vpH_raw_Ready_sync_F', 'vpH_raw_Ready_sync_C', 'vpH_raw_Ready_sync_L', 'vpH_raw_Ready_async_F', 'vpH_raw_Ready_async_C', 'vpH_raw_Ready_async_L']
RAW_SYNC_Q = ['vpH_raw_Ready_sync_F', 'vpH_raw_Ready_sync_L']
RAW_ASYNC_Q = ['vpH_raw_Ready_async_F', 'vpH_raw_Ready_async_L']
RAW_APPLY_Q = ['vpH_raw_ReadyApply_sync_F', 'vpH_raw_ReadyApply_async_F']
RAW_SNAP = ['vpH_raw_ReadySnap_sync_F', 'vpH_raw_ReadySnap_async_F']
RAW_ALL = RAW + RAW_APPLY_Q + ['vpH_raw_ReadyApply_sync_L'] + RAW_SNAP
RAW_ADV = ['vpH_raw_ReadyAdvance_F', 'vpH_raw_ReadyAdvance_C', 'vpH_raw_ReadyAdvance_L']
RESTART = ['vpH_raw_Restart_2']
ELECTION = ['vpH_raw_Election_sync', 'vpH_raw_Election_async', 'vpH_raw_Election_async_outgoing']
ELECTION_T = ['vpH_raw_Election_sync', 'vpH_raw_Election_async', 'vpH_raw_Election_async_joint']
ACK = ['vpH_ack_ApplyResp_L', 'vpH_ack_ApplyResp_F', 'vpH_ack_ApplyResp_L_gone', 'vpH_ack_AppendResp_F', 'vpH_ack_AppendResp_L', 'vpH_ack_AppendResp_C']
TICK = ['vpH_tick_CheckQuorum_et2', 'vpH_tick_CheckQuorum_inactive_et2', 'vpH_tick_CheckQuorum_singleton', 'vpH_tick_Election_F', 'vpH_tick_Election_C', 'vpH_tick_Election_P', 'vpH_tick_TransferAbort_et2']
LOG = ['vpH_log_maybeAppend_0_2_1', 'vpH_log_slice_2_1', 'vpH_log_term_2_1', 'vpH_log_storageAppend_2_2', 'vpH_log_storageCompact_2', 'vpH_log_storageSnapshots_2', 'vpH_log_storageQueries_2', 'vpH_log_queries_1_1', 'vpH_log_unstableOps_1_2', 'vpH_log_maybeAppend_1_1_2']
LOG_T = ['vpH_log_storageAppend_3_3', 'vpH_log_storageCompact_3', 'vpH_log_storageSnapshots_2', 'vpH_log_storageQueries_3', 'vpH_log_queries_2_2', 'vpH_log_unstableOps_2_2', 'vpH_log_maybeAppend_2_2_2']
CONF = ['vpH_conf_Propose_2', 'vpH_conf_Propose_2_joint', 'vpH_conf_Apply_L', 'vpH_conf_Apply_F']
CONF_COMMIT = ['vpH_conf_Apply_L_commit', 'vpH_conf_Apply_L_commit_single']
CONF_T = CONF + ['vpH_conf_Propose_3', 'vpH_conf_Apply_L2', 'vpH_conf_Apply_F2']
SIZE = ['vpH_size_L_MsgHeartbeatResp', 'vpH_size_L_MsgProp', 'vpH_size_L_MsgAppResp']
TRACK = ['vpH_t_InflightsAdd_3', 'vpH_t_InflightsFree_3', 'vpH_t_InflightsMisc_3', 'vpH_t_ProgressOps']
TRACK_T = ['vpH_t_InflightsAdd_4', 'vpH_t_InflightsFree_4', 'vpH_t_InflightsMisc_4', 'vpH_t_ProgressOps']
DET = ['vpH_det_F_MsgHup_bigids', 'vpH_det_L_MsgBeat_bigids', 'vpH_det_F_MsgVote', 'vpH_det_F_MsgApp', 'vpH_det_F_MsgHup', 'vpH_det_C_MsgVoteResp', 'vpH_det_P_MsgPreVoteResp', 'vpH_det_L_MsgHeartbeatResp', 'vpH_det_L_MsgProp', 'vpH_det_L_MsgBeat', 'vpH_det_L_MsgCheckQuorum', 'vpH_det_L_MsgReadIndex']
DET_T = DET + ['vpH_det_F_MsgSnap', 'vpH_det_L_MsgAppResp', 'vpH_detAll_F_MsgHup', 'vpH_detAll_C_MsgVoteResp', 'vpH_detAll_L_MsgBeat', 'vpH_detAll_L_MsgCheckQuorum', 'vpH_detAll_L_MsgHeartbeatResp', 'vpH_detAll_L_MsgProp']

API_ALL = ['vpH_api_Campaign_F', 'vpH_api_Campaign_L', 'vpH_api_Propose_F', 'vpH_api_Propose_C', 'vpH_api_Propose_L', 'vpH_api_ReadIndex_F', 'vpH_api_ReadIndex_L', 'vpH_api_TransferLeader_F', 'vpH_api_TransferLeader_L', 'vpH_api_ForgetLeader_F', 'vpH_api_ReportUnreachable_L', 'vpH_api_ReportSnapshot_L', 'vpH_api_Tick_F', 'vpH_api_Tick_L', 'vpH_api_ProposeConfChange_v1', 'vpH_api_ProposeConfChange_v2', 'vpH_api_StepFilter_F', 'vpH_api_StepFilter_L']
API_LIGHT = [h for h in API_ALL if h not in ('vpH_api_TransferLeader_L', 'vpH_api_Tick_L', 'vpH_api_Propose_L')]
API_TXT = "RawNode request methods (Campaign, Propose, ReadIndex, TransferLeader, ForgetLeader, ReportUnreachable, ReportSnapshot, Tick): relational cells decide that the method leaves the node exactly as stepping the documented message does (labels API/). "

ALL_STEP = VOTE + VRESP + HUP + HB + APP + SNAP + PROP + LEAD + LEAD_HBR + SMALL
# quick-tier stand-ins for the three largest leader cells
LEAD_HBR_Q = ['vpH_step_L_MsgHeartbeatResp_from2']
LEAD_ACK_Q = ['vpH_step_L_MsgAppResp_from1', 'vpH_step_L_MsgAppResp_from2_lean']
LEAD_ACK_JOINT = ['vpH_step_L_MsgAppResp_from2_joint']
PROP_Q = step('FCP', 'MsgProp') + ['vpH_step_L_MsgProp_lean', 'vpH_step_L_MsgProp_bytes']

specs = {}

COMMON = [
    "pre-state: any node state satisfying the representation invariant Inv (DESIGN 3.1); the same harnesses show Inv is preserved by every step (labels Inv/post@...)",
    "inputs: V-term, V-self, V-app, V-hb, V-snap, V-ack, V-local of DESIGN 3.2 where a cell needs them for Inv/no-panic; safety effects are asserted without them",
    "indexes and terms <= 2^40, byte sizes <= 2^40 (no wrap-around at the top of uint64); node ids 1..3 (4) concrete in configurations, message sender id symbolic",
    "the composition of single-node step obligations into the cluster-wide statement is the standard Raft argument and is not machine-checked (DESIGN 3.4)",
]
BQ = ("quick: storage entries <= 1, unstable entries <= 1 (<= 2 in Ready/ack cells), compaction index a concrete choice of {0, 7} with every other index, term, size symbolic, message entries <= 2, "
      "configuration: three voters unless the cell lists other shapes (joint {1,2,3}&&{1,2}, joint with LearnersNext, learner peer, self learner, self removed, singleton, two voters), "
      "leader cells: one peer with fully symbolic Progress and <= 1 in-flight message, the other a caught-up replica; size limits symbolic only in the size cells. ")
BT = ("thorough: storage/unstable entries <= 2/2, compaction index fully symbolic, shapes {simple, joint, learner, joint+LearnersNext}, both peers fully symbolic with <= 2 in-flight messages, symbolic size limits in every cell. ")
OUT = "Outside: longer logs, more than 3 (4) node ids, more than one call per harness except where a harness name says otherwise (Ready->Advance, ticks, election), node.go, formatting."

def prop(pid, quick, thorough, bounds, explanation, level="model_checking", assumptions=None, qbudget=2400, tbudget=21600):
    specs[pid] = {
        "level": level,
        "quick": {"budget_s": qbudget, "harnesses": quick},
        "thorough": {"budget_s": tbudget, "timeout_ms": 120000, "harnesses": thorough},
        "bounds_text": bounds,
        "assumptions": (assumptions if assumptions is not None else COMMON),
        "explanation": explanation,
    }

# ---------------- C12, C13: decided directly ----------------
C12L = ["C12/"]
prop("C12",
     H(['vpH_q_MajCommit_5', 'vpH_q_MajCommit_sub4'], C12L, policies=[0, 1]) + H(['vpH_q_MajVote_5', 'vpH_q_MajVote_sub4'], C12L, policies=[0, 2]) + H(['vpH_q_JointCommit_3', 'vpH_q_JointVote_3', 'vpH_q_MajCommit_8'], C12L),
     H(['vpH_q_MajCommit_sub4', 'vpH_q_MajVote_9', 'vpH_q_MajVote_sub4'], C12L, policies=[0, 1, 2]) + H(['vpH_q_JointCommit_4', 'vpH_q_JointVote_4'], C12L, policies=[0, 1]) + H(['vpH_t_TrackerCommitted_3', 'vpH_t_QuorumActive_3'], ["Q1/", "K4/"]),
     "quick: single majority of size 0..5 (members 1..k) and arbitrary subsets of {1..4}, joint configs over arbitrary subsets of {1..3}; both tiers: exactly 8 voters with acknowledged indexes restricted to 0..7 (crosses the >7 heap-allocation path of CommittedIndex; with unconstrained 64-bit values a single query at that size exceeds 60 s, and sizes 0..9 with unconstrained values do not finish in 400 s: outside the claim); thorough: VoteResult for single majorities of size 0..9, joint over subsets of {1..4}, ProgressTracker.Committed/QuorumActive over {1..3}. Acknowledged indexes: presence per id chosen, values unconstrained 64-bit; votes: presence chosen, value symbolic. Outside: n>9, Describe/String.",
     "CommittedIndex/VoteResult of MajorityConfig and JointConfig are executed symbolically from go/ssa and compared, on every path, with a specification formula (largest index acknowledged by a strict majority, missing=0, empty=MaxUint64, joint=min; Won/Lost/Pending by yes and yes+missing counts per half).",
     assumptions=["slices.Sort on []uint64 is modelled as an odd-even transposition network of unsigned compare-exchange terms (validated against the real library by native replay of sampled paths)"])

C13L = ["C13/"]
prop("C13",
     H(['vpH_c_Simple_k1', 'vpH_c_EnterJoint_k1', 'vpH_c_Simple_k2u2', 'vpH_c_EnterJoint_k2u2', 'vpH_c_LeaveJoint', 'vpH_c_RoundTrip'], C13L),
     H(['vpH_c_Simple_k1', 'vpH_c_EnterJoint_k1', 'vpH_c_Simple_k2u3', 'vpH_c_EnterJoint_k2u3', 'vpH_c_Simple_k3u2', 'vpH_c_EnterJoint_k3u2', 'vpH_c_LeaveJoint', 'vpH_c_RoundTrip'], C13L, policies=[0, 1]),
     "pre-states: every configuration over ids 1..3 satisfying the C13 invariants (six member classes per id: absent, incoming, incoming+outgoing, outgoing only, learner, outgoing+LearnersNext) plus the empty configuration; changes: quick one change on all pre-states, two changes on non-joint pre-states over ids 1..2; thorough two changes over ids 1..3 and three over ids 1..2; change type all four legal values and one illegal, NodeId in {0, members, one fresh id, one arbitrary symbolic id}; Progress values symbolic. Outside: more than 3 ids, more than 3 changes.",
     "Changer.Simple/EnterJoint/LeaveJoint and Restore are executed symbolically and compared with an abstract class-per-id model; on every path the result satisfies the configuration invariants, errors occur exactly in the specified cases, the input tracker is untouched, and ConfState->Restore reproduces the configuration.",
     assumptions=["proto.Clone/proto.Equal/slices.Sort used by ConfState.Equivalent are engine intrinsics (DESIGN 2.6), validated by native replay"])

# ---------------- step-obligation properties ----------------
prop("C07",
     H(VOTE + VRESP + HUP + HB + APP[:1] + SNAP[:1] + PROP_Q + LEAD + LEAD_ACK_Q[:1] + SMALL, ["H1/", "H2/"]) + H(RAW_SYNC_Q + RAW_ASYNC_Q[:1], ["H3/"]) + H(RESTART, ["H4/"]) + H(CONF[2:], ["H1/"]),
     H(T(ALL_STEP + LEAD_ACK + APP_L + SNAP_L), ["H1/", "H2/"]) + H(RAW_ALL, ["H3/"]) + H(['vpH_raw_Restart_3'], ["H4/"]) + H(ACK + CONF[2:], ["H1/", "H2/"]),
     BQ + BT + OUT,
     "H1: term and commit never decrease and the vote changes at most once per term, on every (role x message type) cell; H2: every emitted message carries the current term (grants echo the request term, pre-vote requests Term+1), never one below a term already exposed; H3: Ready exposes the HardState iff it changed and remembers it; H4: restart restores (term, vote, commit) from storage.")

prop("C02",
     H(VOTE, ["E2/", "E4/", "E5/", "H1/vote"]) + H(VRESP, ["E3/", "E4/", "E5/", "H1/vote"]) + H(HUP, ["E3/", "E4/", "E5/"]) + H(RESTART, ["E7/", "H4/"]) + H(ELECTION, ["E6/"]) + H(["vpH_api_Campaign_F", "vpH_api_Campaign_L"], ["API/campaign"]),
     H(T(VOTE + VRESP + HUP + HB[:3] + APP[:1]), ["E2/", "E3/", "E4/", "E5/", "H1/vote"]) + H(['vpH_raw_Restart_3'], ["E7/", "H4/"]) + H(ELECTION_T, ["E6/"]) + H(["vpH_api_Campaign_F", "vpH_api_Campaign_L"], ["API/campaign"]),
     BQ + BT + "Election harness: follower campaigns, Ready is taken, two arbitrary vote responses are stepped before the storage write completes (sync and async). " + OUT,
     "E2 grant rule (one vote per term, only to up-to-date logs, not while following a leader), E3 a node becomes leader only as a candidate by a MsgVoteResp of its own term that completes a joint-majority of granted votes, E4 provenance of tallied votes, E5 the self vote travels through the after-append queue, E6 leading only with a durable term, E7 restart as follower.")

prop("C17",
     H(VOTE, ["K1/", "K3/"]) + H(VRESP + HUP, ["K2/"]) + H(step('L', 'MsgCheckQuorum') + step('L', 'MsgHeartbeatResp')[:0], ["K4/"]) + H(TICK[1:3], ["K5/"]) + H(["vpH_api_Campaign_F", "vpH_api_ForgetLeader_F", "vpH_api_TransferLeader_F", "vpH_api_Tick_F"], ["API/"]) + H(["vpH_step_L_MsgTransferLeader_learner"], ["K2/", "Inv/"]),
     H(T(VOTE), ["K1/", "K3/"]) + H(T(VRESP + HUP), ["K2/"]) + H(T(step('L', 'MsgCheckQuorum') + LEAD_HBR + LEAD_ACK), ["K4/"]) + H(TICK[:3] + ['vpH_tick_CheckQuorum_et3', 'vpH_tick_CheckQuorum_et2_joint'], ["K5/"]) + H(["vpH_api_Campaign_F", "vpH_api_ForgetLeader_F", "vpH_api_TransferLeader_F", "vpH_api_TransferLeader_L", "vpH_api_Tick_F", "vpH_api_Tick_L"], ["API/"]) + H(["vpH_step_L_MsgTransferLeader_learner"], ["K2/", "Inv/"]),
     BQ + BT + "Tick harnesses: ElectionTick 2 (3), HeartbeatTick 1, 2*ET ticks without incoming messages. " + OUT,
     "K1 a pre-vote request changes nothing but the reply, K2 with PreVote the term rises for a campaign only after a pre-vote quorum or on a leader-initiated transfer, K3 the leader lease, K4 CheckQuorum steps down iff no joint-majority was recently active, K5 a silent leader steps down within two election timeouts.")

prop("C03",
     H(APP, ["M1/", "M5/"]) + H(LEAD + LEAD_HBR_Q + LEAD_ACK_Q + PROP_Q[3:], ["M2/", "M3/"]) + H(['vpH_log_maybeAppend_1_1_2', 'vpH_log_maybeAppend_0_2_1'], ["M1/", "M4/"]) + H(ACK[3:5], ["M4/"]),
     H(T(APP + APP_L), ["M1/", "M5/"]) + H(T(LEAD + LEAD_HBR + LEAD_ACK + PROP[3:]), ["M2/", "M3/"]) + H(['vpH_log_maybeAppend_2_2_2'], ["M1/"]) + H(ACK[3:], ["M4/"]),
     BQ + BT + OUT,
     "M1 follower append (slice present afterwards, entries before the first conflict kept, truncation only at a conflict), M2 every MsgApp carries consecutive log entries anchored at a log position, M3 a leader never changes its own log except by appending entries of its term, M4 storage acknowledgements never change the logical log, M5 rejection hints.")

prop("C06",
     H(LEAD + LEAD_HBR_Q + LEAD_ACK_Q + CONF[2:3], ["Q1/", "Q2/", "Q4/"]) + H(APP[:1] + HB, ["Q3/", "Q4/", "Q5/"]) + H(['vpH_t_TrackerCommitted_3'], ["Q1/"]) + H(CONF_COMMIT, ["Q1/", "H1/"]),
     H(T(LEAD + LEAD_HBR + LEAD_ACK), ["Q1/", "Q2/", "Q4/"]) + H(CONF[2:3], ["Q1/"]) + H(T(APP + HB), ["Q3/", "Q4/", "Q5/"]) + H(['vpH_t_TrackerCommitted_3', 'vpH_log_maybeAppend_2_2_2'], ["Q1/", "Q5/"]) + H(CONF_COMMIT, ["Q1/", "H1/"]),
     BQ + BT + OUT,
     "Q1 the leader's commit index only advances to an own-term entry matched by a joint majority, Q2 Match rises only through a non-reject MsgAppResp of the current term from that peer, Q3 acknowledgements are truthful, Q4 heartbeats carry min(Match, commit), Q5 follower commit = max(old, min(leader commit, end of slice)); Q6 commit <= last index is part of Inv.")

prop("C04",
     H(VOTE[:4], ["E2/"]) + H(VRESP[:1], ["E3/", "N1/"]) + H(LEAD + APP[:1] + SNAP[:1] + HB[:1], ["N2/", "Q1/"]) + H(HUP_X[1:], ["G3/"]),
     H(T(VOTE), ["E2/"]) + H(T(VRESP), ["E3/", "N1/"]) + H(T(LEAD + LEAD_ACK + LEAD_HBR + APP + SNAP + HB), ["N2/", "Q1/"]) + H(HUP_X[1:], ["G3/"]),
     BQ + BT + OUT,
     "Local premises of leader completeness: E2 votes only to up-to-date logs, E3 election quorum, Q1 only own-term entries are committed by counting, N1 a new leader keeps its log and appends one empty entry, N2 the committed prefix is immutable on every node.")

prop("C01",
     H(APP[:1] + SNAP[:1] + HB[:1] + LEAD, ["N2/", "M1/", "M3/", "Q1/", "Q3/", "S1/"]) + H(VOTE[:1] + VRESP[:1], ["E2/", "E3/"]) + H(RAW_SYNC_Q[:1] + RAW_ASYNC_Q[:1] + RAW_APPLY_Q, ["A1/", "A2/", "D2/", "D3/"]),
     H(T(APP + SNAP + HB + LEAD + LEAD_ACK), ["N2/", "M1/", "M3/", "Q1/", "Q3/", "S1/"]) + H(T(VOTE + VRESP), ["E2/", "E3/"]) + H(RAW_ALL + RAW_ADV, ["A1/", "A2/", "D2/", "D3/"]),
     BQ + BT + OUT,
     "No obligation of its own: a selection of the step obligations the state-machine-safety argument rests on (committed prefix immutable, the apply stream is the contiguous committed log, follower append, leader append-only, quorum-backed commit, truthful acknowledgements, vote rule, election quorum, snapshot install). The cluster-wide statement is their composition and is not mechanised.")

prop("C05",
     H(APP[:1] + VOTE[:1] + SNAP[:1] + PROP_Q[3:] + HUP[:1] + VRESP[:1], ["D1/"]) + H(RAW_SYNC_Q + RAW_SNAP[:1], ["D2/", "W5/"]) + H(RAW_ASYNC_Q + RAW_SNAP[1:], ["D3/"]) + H(RAW_ADV[:1] + RAW_ADV[2:], ["D2/", "D4/", "W5/"]) + H(RESTART, ["H4/", "A4/"]),
     H(T(ALL_STEP + LEAD_ACK), ["D1/"]) + H(RAW_ALL, ["D2/", "D3/", "W5/"]) + H(RAW_ADV, ["D2/", "D4/", "W5/"]) + H(['vpH_raw_Restart_3'], ["H4/", "A4/"]),
     BQ + BT + "Ready cells: <= 1 pending ordinary message, <= 2 pending promises (self-addressed or not), optional read state; the synchronous cells persist the Ready with the real MemoryStorage and compare storage with the logical log. Crash points: batch boundaries only (DESIGN C05-D5). " + OUT,
     "D1 promises (MsgAppResp, MsgVoteResp, MsgPreVoteResp) and self-addressed messages are only ever queued behind persistence, D2 a synchronous Ready carries everything unstable and, once persisted, storage covers the whole logical log and the HardState behind every promise, D3 an asynchronous Ready releases promises only as Responses of the MsgStorageAppend, D4 the leader's own Match rises only through its persisted self-acknowledgement.")

prop("C08",
     H(RAW_APPLY_Q + RAW_SNAP + RAW_SYNC_Q[1:] + RAW_ASYNC_Q[:1], ["A1/", "A2/", "A3/"]) + H(RAW_ADV[:1] + RAW_ADV[2:], ["A2/"]) + H(ACK[:2], ["A5/", "A2/"]) + H(RESTART, ["A4/"]) + H(APP[:1] + SNAP[:1] + LEAD[:1], ["A2/"]),
     H(RAW_ALL, ["A1/", "A2/", "A3/"]) + H(RAW_ADV, ["A2/"]) + H(ACK[:3], ["A5/", "A2/"]) + H(['vpH_raw_Restart_3'], ["A4/"]) + H(T(ALL_STEP), ["A2/"]),
     BQ + BT + OUT,
     "A1 Ready hands out exactly the contiguous committed entries after `applying` (maximal prefix within the size quota, only stable entries in async mode), A2 applied/applying never move back and consecutive batches abut, A3 nothing is handed out while a snapshot is pending, A4 restart resumes right after Config.Applied, A5 apply acknowledgements.")

prop("C09",
     H(SNAP, ["S1/"]) + H(LEAD[:1] + LEAD_HBR_Q + LEAD_ACK_Q[1:] + step('L', 'MsgSnapStatus'), ["S3/", "S4/", "L4/no-append"]) + H(RAW_SNAP, ["S2/"]) + H(ACK[3:4], ["S2/"]) + H(['vpH_log_unstableOps_1_2'], ["S1/"]) + H(["vpH_api_ReportSnapshot_L"], ["API/report-snapshot"]),
     H(T(SNAP + SNAP_L), ["S1/"]) + H(T(LEAD + LEAD_HBR + LEAD_ACK), ["S3/", "S4/", "L4/no-append"]) + H(RAW_SNAP + RAW_ADV[:1], ["S2/"]) + H(ACK[3:4], ["S2/"]) + H(['vpH_log_unstableOps_2_2'], ["S1/"]) + H(["vpH_api_ReportSnapshot_L"], ["API/report-snapshot"]),
     BQ + BT + "MsgSnap cells: snapshot index/term symbolic, ConfState from the shape menu (10 shapes), pending unstable snapshot allowed. " + OUT,
     "S1 a snapshot at or below the commit index, without this node, or matching the log changes nothing but (for a match) the commit index; otherwise it replaces the log, commit index and configuration exactly; S2 persistence handshake; S3 the leader sends the storage snapshot only for a compacted prefix and tracks it; S4 snapshot status handling.")

prop("C10",
     H(CONF, ["G1/", "G4/", "Q1/", "P1/"]) + H(HUP[:3] + HUP[4:7], ["G3/"]) + H(ACK[:3], ["G6/"]) + H(VRESP[:2], ["E3/"]) + H(HUP_X, ["G3/"]) + H(["vpH_api_ProposeConfChange_v1", "vpH_api_ProposeConfChange_v2"], ["API/propose-conf-change"]) + H(CONF_COMMIT, ["G4/", "Q1/"]),
     H(CONF_T, ["G1/", "G4/", "Q1/", "P1/"]) + H(T(HUP), ["G3/"]) + H(ACK[:3], ["G6/"]) + H(T(VRESP), ["E3/"]) + H(HUP_X, ["G3/"]) + H(["vpH_api_ProposeConfChange_v1", "vpH_api_ProposeConfChange_v2"], ["API/propose-conf-change"]) + H(CONF_COMMIT, ["G4/", "Q1/"]),
     BQ + BT + "Propose gate: <= 2 (3) entries per proposal, each normal / ConfChange / ConfChangeV2 with <= 2 changes, symbolic types and node ids; ApplyConfChange: <= 2 changes over ids 1..4 on shapes {simple, joint, joint+LearnersNext, self learner}, restricted to changes the Changer accepts (A-cc). " + OUT,
     "G1 the propose gate keeps at most one unapplied configuration change and refuses enter/leave mismatches, G3 no campaign with a committed-but-unapplied change, G4 ApplyConfChange installs exactly the Changer's result (C13) and handles leader removal, G5 election and commit quorums are joint (E3, Q1 on joint shapes), G6 auto-leave is proposed exactly when the joint configuration has been applied.")

prop("C11",
     H(READ + READ_J, ["R1/", "R2/", "R3/", "R4/"]) + H(READ_SINGLETON, ["R2/", "R2b/"]) + H(step('F', 'MsgReadIndex') + step('F', 'MsgReadIndexResp') + HB[:1], ["R4/", "R5/"]) + H(["vpH_api_ReadIndex_F", "vpH_api_ReadIndex_L"], ["API/read-index"]) + H(READ_PEND, ["R2/", "R3/"]),
     H(READ + READ_J, ["R1/", "R2/", "R3/", "R4/"], policies=[0, 1]) + H(READ_SINGLETON, ["R2/", "R2b/"]) + H(T(step('F', 'MsgReadIndex') + step('F', 'MsgReadIndexResp') + HB), ["R4/", "R5/"]) + H(["vpH_api_ReadIndex_F", "vpH_api_ReadIndex_L"], ["API/read-index"]) + H(READ_PEND_T, ["R2/", "R3/"]),
     BQ + "Read cells: <= 2 queued unconfirmed requests, <= 1 postponed request, acks present/absent per member with symbolic positions, shapes {three voters, joint, two voters, singleton self, singleton other with self removed}. " + OUT,
     "R1 admission (postponed until an own-term commit, queued with the commit index at receipt, position broadcast), R2 release only for the prefix confirmed by a joint majority of acknowledgements, R2b the singleton shortcut only when the sole voter is this node and it has committed in its term, R3 each answer carries its recorded index and own context, R4 resets/echo, R5 follower side.")

prop("C16",
     H(['vpH_log_limitSize_3'] + TRACK, ["C16/", "I-prog/"]) + H(SIZE[:2], ["L2/", "L4/", "L5/"]) + H(LEAD[:1] + LEAD_ACK_Q[1:] + PROP_Q[3:], ["L4/", "L5/"]) + H(ACK[:1], ["L5/"]) + H(["vpH_api_ReportUnreachable_L"], ["API/report-unreachable"]),
     H(['vpH_log_limitSize_4'] + TRACK_T, ["C16/", "I-prog/"]) + H(SIZE, ["L2/", "L4/", "L5/"]) + H(T(LEAD + LEAD_HBR + LEAD_ACK + PROP[3:]), ["L2/", "L4/", "L5/"]) + H(ACK[:1], ["L5/"]) + H(["vpH_api_ReportUnreachable_L"], ["API/report-unreachable"]),
     BQ + BT + "limitSize: <= 3 (4) entries with symbolic term/index/type/payload length, exact protobuf size model; Inflights: size <= 3 (4), every ring shape (buffer length, start, count), symbolic contents. " + OUT,
     "L1 limitSize returns the maximal non-empty prefix within the budget, L2 every MsgApp respects MaxSizePerMsg (one entry always allowed), L3 Inflights refines a bounded FIFO, L4 the in-flight window and pause rules, L5 the uncommitted-size quota.")

prop("C18",
     H(LOG, ["C18/", "S1/log", "M1/", "Q5/"]) + H(ACK[3:5], ["M4/"]),
     H(LOG_T, ["C18/", "S1/log", "M1/", "Q5/"]) + H(ACK[3:], ["M4/"]),
     "MemoryStorage: <= 2 (3) entries plus the dummy entry, appended slices <= 2 (3) entries; raftLog: storage/unstable <= 1/1 and 1/2 (2/2), optional unstable snapshot; indexes <= 2^42 in queries (indexes near 2^64 wrap in `i+1` and `int(i-offset)`: outside every claim). Outside: long operation sequences, custom Storage implementations.",
     "One-step refinement of an abstract log by MemoryStorage (Append, Compact, CreateSnapshot, ApplySnapshot, queries), raftLog queries against the abstract view, unstable bookkeeping (stableTo, acceptInProgress, stableSnapTo, restore), and stale storage acknowledgements (ABA).",
     assumptions=COMMON[:1] + COMMON[2:3] + ["proto.Size(Entry) is the exact protobuf wire-size formula (engine intrinsic, validated by native replay)"])

prop("C20",
     H(PROP_Q, ["P1/", "P2/", "P3/", "L5/accept"]) + H(CONF[:2], ["P1/", "P2/"]) + H(APP[:1] + VRESP[:1] + SNAP[:1] + HB[:1] + LEAD[:2] + ACK[:1], ["P4/"]) + H(["vpH_api_Propose_F", "vpH_api_Propose_C", "vpH_api_Propose_L"], ["API/propose"]),
     H(T(PROP), ["P1/", "P2/", "P3/", "L5/accept"]) + H(CONF[:2] + ['vpH_conf_Propose_3'], ["P1/", "P2/"]) + H(T(LEAD + LEAD_HBR + LEAD_ACK + APP + SNAP + HUP + VRESP), ["P4/", "M3/", "N2/"]) + H(ACK, ["P4/"]) + H(["vpH_api_Propose_F", "vpH_api_Propose_C", "vpH_api_Propose_L"], ["API/propose"]),
     BQ + BT + "Proposals: <= 2 entries with opaque payloads of symbolic length (identity tracked). " + OUT,
     "P1 an accepted proposal appends exactly the proposed entries (payload, type, order) once, as copies, P2 a dropped proposal changes nothing, P3 non-leaders forward the same entries once or drop, P4 outside proposals every new or changed log entry is an entry of the stepped MsgApp, the empty entry of a new leader or the empty auto-leave entry.")

prop("C14",
     H(VOTE + VRESP[:4] + HUP + HB + APP[:1] + SNAP[:1] + PROP_Q + LEAD + LEAD_ACK_Q[:1] + SMALL, ["Inv/"], panics=True) + H(RAW_SYNC_Q + RAW_ASYNC_Q[:1] + RAW_SNAP + RESTART + CONF[2:] + ACK[:1] + ACK[3:4], ["Inv/"], panics=True) + H(API_LIGHT + ["vpH_api_Propose_L"], ["API/"], panics=True) + H(HUP_X, ["Inv/", "G3/"], panics=True) + H(["vpH_step_L_MsgTransferLeader_learner"], ["Inv/"], panics=True) + H(CONF_COMMIT, ["Inv/"], panics=True),
     H(T(ALL_STEP + LEAD_ACK + APP_L + SNAP_L), ["Inv/"], panics=True) + H(RAW_ALL + RAW_ADV + ['vpH_raw_Restart_3'] + CONF + ACK + TICK, ["Inv/"], panics=True) + H(LOG_T + TRACK_T, ["C18/", "C16/"], panics=True) + H(API_ALL, ["API/"], panics=True) + H(HUP_X, ["Inv/", "G3/"], panics=True) + H(["vpH_step_L_MsgTransferLeader_learner"], ["Inv/"], panics=True) + H(CONF_COMMIT, ["Inv/"], panics=True),
     BQ + BT + OUT,
     "No run of any cell ends in a panic (explicit panic, Logger.Panic*, index/slice out of range, nil dereference, nil-map write, failed type assertion, division by zero) and the representation invariant holds afterwards, under Inv, the V-* input assumptions, A-cc and the storage contract.")

prop("C19",
     H(DET, ["T1/"]) + H(['vpH_t_VisitOrder_9'], ["T1/"], policies=[0, 1, 2]),
     H(DET_T, ["T1/"]) + H(['vpH_t_VisitOrder_9'], ["T1/"], policies=[0, 1, 2]),
     BQ + "Each determinism cell builds the same symbolic state and message three times and steps it under three map-iteration policies (ascending, descending, rotated by one); shapes {three voters, joint, joint+LearnersNext}. Outside: the other 3!-3 orders of three-key maps, byte-wise comparison of long concrete runs in a separate process.",
     "T1: for all inputs the outputs (error, hard/soft state, log, both message queues in order and field by field, progress, votes, read states, configuration) are equal under different map iteration orders (relational, decided by the solver); T2: reaching time, math/rand, crypto/rand (other than lockedRand.Intn), goroutines or channels from a RawNode entry point ends the check as a violation.")

prop("C15",
     H(LEAD_HBR[:0] + step('L', 'MsgSnapStatus'), ["S4/"]) + H(TICK[3:], ["W3/", "W6/"]) + H(RAW_SYNC_Q[:1] + RAW_ADV[:1], ["W5/"]) + H(APP[:1], ["W7/"]) + H(ACK[:1], ["G6/"]) + H(HUP[:1], ["W6/"]),
     H(T(LEAD_HBR + step('L', 'MsgSnapStatus')), ["W1/", "S4/"]) + H(TICK, ["W3/", "W6/", "K5/"]) + H(RAW_ALL + RAW_ADV, ["W5/"]) + H(T(APP + HB), ["W7/"]) + H(ACK[:3], ["G6/"]) + H(T(HUP), ["W6/"]),
     BQ + BT + OUT,
     "Enabling lemmas only (single node, one step or <= 2*ET ticks): W1 a heartbeat response un-pauses replication, W3 a stalled transfer is abandoned, W4 snapshot state is left, W5 a storage acknowledgement is always requested and trims the unstable log, W6 the election timer fires, W7 a stale leader is answered, W8 auto-leave is retried. Global convergence, the bound on election timeouts and the two-voter exception are NOT decided.",
     level="other")

# ---------------- thorough tier: only cells that have run to completion ----------------
# "register only bounds that ran clean on the unchanged tree": tools/tier_ok.json
# lists the deeper cells (vpH_stepT_*, vpH_stepM_*, and the larger non-step
# harnesses) that completed without inconclusive paths within their budget on
# this tree. A thorough entry that is not listed falls back: stepT -> stepM ->
# the quick cell; other unlisted harnesses are dropped. The thorough tier is
# then the union of the property's quick entries and these deeper ones.
import os
ok = set()
if os.path.exists('/verif/tools/tier_ok.json'):
    ok = set(json.load(open('/verif/tools/tier_ok.json'))['ok'])
quick_names = set()
for sp in specs.values():
    for e in sp['quick']['harnesses']:
        quick_names.add(e['h'])

STANDIN = {'vpH_step_L_MsgAppResp': LEAD_ACK_Q + LEAD_ACK_JOINT, 'vpH_step_L_MsgHeartbeatResp': LEAD_HBR_Q, 'vpH_step_L_MsgProp': PROP_Q[3:]}

def resolve(h):
    """-> list of harness names standing for h in the thorough tier"""
    if h in ok or h in quick_names:
        return [h]
    if h.startswith('vpH_stepT_'):
        m = h.replace('vpH_stepT_', 'vpH_stepM_')
        if m in ok:
            return [m]
        h = h.replace('vpH_stepT_', 'vpH_step_')
        if h in ok or h in quick_names:
            return [h]
    if h in STANDIN:
        return [x for x in STANDIN[h] if x in ok or x in quick_names]
    return []

fallbacks = {}
for pid, sp in specs.items():
    seen = set()
    out = []
    for e in sp['quick']['harnesses'] + sp['thorough']['harnesses']:
      hs = resolve(e['h'])
      if not hs:
          fallbacks.setdefault(pid, []).append(e['h'] + ' (dropped)')
      elif hs != [e['h']]:
          fallbacks.setdefault(pid, []).append(e['h'] + ' -> ' + ' + '.join(hs))
      for h in hs:
        e2 = dict(e)
        e2['h'] = h
        key = (h, tuple(e2['labels']), tuple(e2.get('policies', [])))
        if key in seen:
            continue
        # merge label lists of the same harness
        merged = False
        for o in out:
            if o['h'] == h and o.get('policies') == e2.get('policies') and o.get('panics') == e2.get('panics'):
                for l in e2['labels']:
                    if l not in o['labels']:
                        o['labels'] = o['labels'] + [l]
                merged = True
                break
        seen.add(key)
        if not merged:
            out.append(e2)
    sp['thorough']['harnesses'] = out
json.dump(fallbacks, open('/verif/specs/thorough_fallbacks.json', 'w'), indent=1)

json.dump(specs, open('/verif/specs/checks.json', 'w'), indent=1)
print("properties:", sorted(specs))
